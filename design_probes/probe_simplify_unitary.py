"""Exploratory numeric probe for simplify_unitary (rational rotation) -- not the real check."""
import os, itertools, random
os.environ["ADCGEN_LOG_LEVEL"]="ERROR"
from fractions import Fraction
from adcgen import *
from adcgen.expr_container import Expr
from adcgen.sympy_objects import NonSymmetricTensor, KroneckerDelta
from adcgen.indices import Index
from sympy import Add, Mul, Pow, S
random.seed(5)
NO_=3
OCC=list(range(NO_))
# orthogonal 3x3 rational: product of two rational rotations
def rot(i,j,c,s):
    M=[[Fraction(int(a==b)) for b in range(3)] for a in range(3)]
    M[i][i]=c;M[j][j]=c;M[i][j]=-s;M[j][i]=s; return M
def mm(A,B): return [[sum(A[i][k]*B[k][j] for k in range(3)) for j in range(3)] for i in range(3)]
U=mm(rot(0,1,Fraction(3,5),Fraction(4,5)), rot(1,2,Fraction(5,13),Fraction(12,13)))
U=mm(U,[[1,0,0],[0,1,0],[0,0,-1]])
vals={}
def val(name,tup):
    if name=="U": return U[tup[0]][tup[1]]
    key=(name,tup)
    if key not in vals: vals[key]=Fraction(random.randint(1,9),random.randint(1,5))
    return vals[key]
def ev_obj(o,asg):
    if o.is_number: return Fraction(int(o.p),int(o.q))
    if isinstance(o,Pow): return ev_obj(o.args[0],asg)**int(o.args[1])
    if isinstance(o,KroneckerDelta): return 1 if asg[o.args[0]]==asg[o.args[1]] else 0
    if isinstance(o,NonSymmetricTensor): return val(o.name, tuple(asg[s] for s in o.idx))
    raise NotImplementedError(o)
def evaluate(expr,target,tasg):
    tot=0; expr=expr.expand()
    for t in (expr.args if isinstance(expr,Add) else (expr,)):
        objs=t.args if isinstance(t,Mul) else (t,)
        base=dict(zip(target,tasg))
        contracted=sorted((s for s in t.atoms(Index) if s not in base), key=str)
        for casg in itertools.product(OCC,repeat=len(contracted)):
            asg=dict(base); asg.update(zip(contracted,casg)); v=1
            for o in objs:
                v*=ev_obj(o,asg)
                if v==0: break
            tot+=v
    return tot
pool=get_symbols("ijkl")
ncases=nviol=nchanged=0
for nU in (2,3):
  for uidx in itertools.product(itertools.product(pool,repeat=2), repeat=nU):
    for rem in [(), ((pool[0],),), ((pool[1],pool[2]),), ((pool[0],),(pool[0],))]:
        objs=[NonSymmetricTensor("U",x) for x in uidx]+[NonSymmetricTensor("x%d"%n,r) for n,r in enumerate(rem)]
        term=Mul(*objs)
        cnt={}
        for o in objs:
            for s in o.idx: cnt[s]=cnt.get(s,0)+1
        target=tuple(s for s in pool if cnt.get(s,0)==1)
        for ed in (False,True):
            ncases+=1
            try:
                res=simplify_unitary(Expr(term),"U",evaluate_deltas=ed).sympy
            except Exception as ex:
                print("ERR",term,repr(ex)[:100]); nviol+=1; continue
            if res!=term: nchanged+=1
            for tasg in itertools.product(OCC,repeat=len(target)):
                if evaluate(term,target,tasg)!=evaluate(res,target,tasg):
                    nviol+=1
                    if nviol<=10: print("VIOL",term,"->",res,"target",target,"ed",ed,"at",tasg)
                    break
print("cases",ncases,"changed",nchanged,"viol",nviol)
