"""Throwaway prototype: off-shell power-series ISR construction in Fock space vs adcgen (pp / ip, small model)."""
import os, sys, time, itertools
os.environ["ADCGEN_LOG_LEVEL"]="ERROR"
from fractions import Fraction
from sympy.polys.rings import ring
from sympy.polys.domains import QQ
NO_, NV_ = int(sys.argv[1]), int(sys.argv[2])
VARIANT = sys.argv[3]
MAXO = int(sys.argv[4])
N = NO_+NV_; OCC=list(range(NO_)); VIRT=list(range(NO_,N)); ALL=list(range(N))
pairs=list(itertools.combinations(ALL,2))
names=[]
for u in pairs:
    for l in pairs: names.append(f"V_{u[0]}{u[1]}_{l[0]}{l[1]}")
for p in ALL:
    for q in ALL: names.append(f"f_{p}_{q}")
# amplitudes: orders 1..MAXO, classes 1,2 ; ket (t) and bra (c)
def exc(k):
    return [(o,v) for o in itertools.combinations(OCC,k) for v in itertools.combinations(VIRT,k)]
for n in range(1,MAXO+1):
    for k in (1,2,3,4):
        for o,v in exc(k):
            for kind in "tc":
                names.append(f"{kind}{n}_"+"".join(map(str,o))+"_"+"".join(map(str,v)))
R, *X = ring(",".join(names), QQ)
VAR=dict(zip(names,X))
def sort_sign(t):
    t=list(t); s=1
    for i in range(len(t)):
        for j in range(len(t)-1-i):
            if t[j]>t[j+1]: t[j],t[j+1]=t[j+1],t[j]; s=-s
    return s, tuple(t)
def Vv(u,l):
    if len(set(u))<2 or len(set(l))<2: return R.zero
    su,u=sort_sign(u); sl,l=sort_sign(l)
    return su*sl*VAR[f"V_{u[0]}{u[1]}_{l[0]}{l[1]}"]
def fv(p,q): return VAR[f"f_{p}_{q}"]
def amp(kind,n,occ,virt):
    """t^{virt}_{occ} antisymmetric; kind 't' or 'c' (complex conjugate)"""
    if len(set(occ))<len(occ) or len(set(virt))<len(virt): return R.zero
    so,o=sort_sign(occ); sv,v=sort_sign(virt)
    nm=f"{kind}{n}_"+"".join(map(str,o))+"_"+"".join(map(str,v))
    return so*sv*VAR[nm] if nm in VAR else R.zero
# ---- Fock space
def apply_op(kind,p,det):
    bit=1<<p
    if (kind=='+')==bool(det&bit): return None
    sign=-1 if bin(det&(bit-1)).count("1")%2 else 1
    return sign, det^bit
def apply_string(ops, state):
    out={}
    for det,c in state.items():
        d,s=det,1; ok=True
        for kind,p in reversed(ops):
            r=apply_op(kind,p,d)
            if r is None: ok=False;break
            s*=r[0]; d=r[1]
        if ok: out[d]=out.get(d,R.zero)+s*c
    return {k:v for k,v in out.items() if v!=0}
def dagger(ops): return [('-' if k=='+' else '+',p) for k,p in reversed(ops)]
def add(a,b,fac=1):
    out=dict(a)
    for k,v in b.items(): out[k]=out.get(k,R.zero)+fac*v
    return {k:v for k,v in out.items() if v!=0}
def scal(a,c):
    if c==0: return {}
    return {k:v*c for k,v in a.items()}
def dot(bra,ket): return sum((bra[d]*ket[d] for d in bra if d in ket), R.zero)
REF=sum(1<<i for i in OCC)
def apply_H0(st, side='ket'):
    out={}
    for p in ALL:
        for q in ALL:
            out=add(out, scal(apply_string([('+',p),('-',q)],st), fv(p,q)))
    return out
def apply_H1(st):
    out={}
    for p in ALL:
        for q in ALL:
            c=-sum((Vv((p,i),(q,i)) for i in OCC), R.zero)
            out=add(out, scal(apply_string([('+',p),('-',q)],st), c))
    for p,q in pairs:
        for r,s in pairs:
            out=add(out, scal(apply_string([('+',p),('+',q),('-',s),('-',r)],st), Vv((p,q),(r,s))))
    return out
# for bra states we store coefficient dict of <bra| ; <bra|O = (O^dagger|bra>)^dagger: apply adjoint operator to coefficient vector
def braH0(st):
    out={}
    for p in ALL:
        for q in ALL:   # <b| f_pq a+p aq  -> coefficients: apply (a+p aq)^dagger = a+q ap
            out=add(out, scal(apply_string([('+',q),('-',p)],st), fv(p,q)))
    return out
def braH1(st):
    out={}
    for p in ALL:
        for q in ALL:
            c=-sum((Vv((p,i),(q,i)) for i in OCC), R.zero)
            out=add(out, scal(apply_string([('+',q),('-',p)],st), c))
    for p,q in pairs:
        for r,s in pairs:
            out=add(out, scal(apply_string(dagger([('+',p),('+',q),('-',s),('-',r)]),st), Vv((p,q),(r,s))))
    return out
# ---- series helpers: a series is list over order 0..MAXO
def s_mul_scalar(sa, sb):  # scalar series * scalar series
    out=[R.zero]*(MAXO+1)
    for i,a in enumerate(sa):
        if a==0: continue
        for j,b in enumerate(sb):
            if i+j<=MAXO and b!=0: out[i+j]+=a*b
    return out
def s_scal_state(ss, st):  # scalar series * state series
    out=[{} for _ in range(MAXO+1)]
    for i,a in enumerate(ss):
        if a==0: continue
        for j,b in enumerate(st):
            if i+j<=MAXO and b: out[i+j]=add(out[i+j], scal(b,a))
    return out
def s_dot(bra, ket):
    out=[R.zero]*(MAXO+1)
    for i,a in enumerate(bra):
        for j,b in enumerate(ket):
            if i+j<=MAXO and a and b: out[i+j]+=dot(a,b)
    return out
def s_add(a,b,fac=1): return [add(x,y,fac) for x,y in zip(a,b)]
def binom_series(x, alpha):
    """(1+x)^alpha for scalar series x with x[0]==0"""
    assert x[0]==0
    res=[R.one]+[R.zero]*MAXO
    term=[R.one]+[R.zero]*MAXO
    coef=Fraction(1)
    for k in range(1,MAXO+1):
        coef=coef*(Fraction(alpha)-(k-1))/k
        term=s_mul_scalar(term,x)
        res=[r+R(QQ(coef.numerator,coef.denominator))*t for r,t in zip(res,term)]
    return res
# ---- ground state (library ansatz), singles at first order off
def gs_state(kind):
    series=[{REF:R.one}]
    for n in range(1,MAXO+1):
        st={}
        for k in (1,2,3,4):
            if k>2*n: continue
            if n==1 and k==1: continue
            for o,v in exc(k):
                ops=[('+',a) for a in v]+[('-',i) for i in reversed(o)]
                coeff=amp(kind,n,o,v)
                if k==2: coeff=-coeff
                st=add(st, scal(apply_string(ops,{REF:R.one}), coeff))
        series.append(st)
    return series
ket=gs_state('t'); bra=gs_state('c')
Nser=s_dot(bra,ket)
x=[R.zero]+Nser[1:]
a_inv_sqrt=binom_series(x, Fraction(-1,2))
ket0=s_scal_state(a_inv_sqrt, ket); bra0=s_scal_state(a_inv_sqrt, bra)
# energies E_n=<0|H1|n-1> off-shell with E_0=<0|H0|0>
Eser=[dot({REF:R.one}, apply_H0({REF:R.one}))]
for n in range(1,MAXO+1):
    Eser.append(dot({REF:R.one}, apply_H1(ket[n-1])))
# ---- excitation classes
def classes(variant):
    if variant=="pp": return [("ph",1,1),("pphh",2,2)]
    if variant=="ip": return [("h",1,0),("phh",2,1)]
    if variant=="ea": return [("p",0,1),("pph",1,2)]
def basis(no,nv): return [(o,v) for o in itertools.combinations(OCC,no) for v in itertools.combinations(VIRT,nv)]
def C_ops(o,v):  # library: creation=virtual, annihilation=occupied, reverse_annihilation=False -> a+_a a+_b a_i a_j
    return [('+',a) for a in v]+[('-',i) for i in o]
def on_series(ops, series): return [apply_string(ops, st) if st else {} for st in series]
def NOsign_ok(): return True
t0=time.time()
cls=classes(VARIANT)
isr_ket={}; isr_bra={}
lower=[]
for (sp,no,nv) in cls:
    B=basis(no,nv)
    pre_ket={}; pre_bra={}
    for I in B:
        ops=C_ops(*I)
        k=on_series(ops, ket0)
        b=on_series(ops, bra0)   # <Psi0| C^dagger  has coefficient vector C|bra0 coeffs>  (real integer operator)
        if VARIANT=="pp":
            ovk=s_dot(bra0,k); k=s_add(k, s_scal_state(ovk, ket0), -1)
            ovb=s_dot(b,ket0); b=s_add(b, s_scal_state(ovb, bra0), -1)
        for (lsp,lB) in lower:
            for J in lB:
                ov=s_dot(isr_bra[(lsp,J)], k); k=s_add(k, s_scal_state(ov, isr_ket[(lsp,J)]), -1)
                ov=s_dot(b, isr_ket[(lsp,J)]); b=s_add(b, s_scal_state(ov, isr_bra[(lsp,J)]), -1)
        pre_ket[I]=k; pre_bra[I]=b
    # overlap matrix series
    S={(I,J): s_dot(pre_bra[I],pre_ket[J]) for I in B for J in B}
    for I in B:
        for J in B:
            assert S[(I,J)][0]==(R.one if I==J else R.zero), (I,J,S[(I,J)][0])
    # X = S-1 ; S^-1/2 = sum_k binom(-1/2,k) X^k  (matrix series)
    def mat_mul(A,Bm):
        return {(I,J): [sum((s_mul_scalar(A[(I,K)],Bm[(K,J)])[o] for K in B), R.zero) for o in range(MAXO+1)] for I in B for J in B}
    Xm={(I,J): [R.zero]+S[(I,J)][1:] for I in B for J in B}
    Sm={(I,J): [R.one if I==J else R.zero]+[R.zero]*MAXO for I in B for J in B}
    term={k_:v[:] for k_,v in Sm.items()}
    coef=Fraction(1)
    for k in range(1,MAXO+1):
        coef=coef*(Fraction(-1,2)-(k-1))/k
        term=mat_mul(term,Xm)
        for key in Sm:
            Sm[key]=[a+R(QQ(coef.numerator,coef.denominator))*b for a,b in zip(Sm[key],term[key])]
    for I in B:
        k=[{} for _ in range(MAXO+1)]; b=[{} for _ in range(MAXO+1)]
        for J in B:
            k=s_add(k, s_scal_state(Sm[(J,I)], pre_ket[J]))
            b=s_add(b, s_scal_state(Sm[(I,J)], pre_bra[J]))
        isr_ket[(sp,I)]=k; isr_bra[(sp,I)]=b
    lower.append((sp,B))
print("ISR built", round(time.time()-t0,2))
# orthonormality check of explicit states
for (s1,I),b in isr_bra.items():
    for (s2,J),k in isr_ket.items():
        ov=s_dot(b,k)
        exp0 = R.one if (s1,I)==(s2,J) else R.zero
        assert ov[0]==exp0 and all(o==0 for o in ov[1:]), ((s1,I),(s2,J),ov)
print("explicit ISR orthonormal through order", MAXO)
# secular matrix series M_IJ = <I|H0 + H1 - E|J>
def M_series(bI,kJ):
    out=[R.zero]*(MAXO+1)
    for i,b in enumerate(bI):
        if not b: continue
        for j,k in enumerate(kJ):
            if not k: continue
            if i+j<=MAXO: out[i+j]+=dot(b, apply_H0(k))
            if i+j+1<=MAXO: out[i+j+1]+=dot(b, apply_H1(k))
            for m,Em in enumerate(Eser):
                if i+j+m<=MAXO: out[i+j+m]-=Em*dot(b,k)
    return out
# ---- evaluate library
from adcgen import Operators, GroundState, IntermediateStates, SecularMatrix, get_symbols
from adcgen.sympy_objects import AntiSymmetricTensor, NonSymmetricTensor, KroneckerDelta, Amplitude
from adcgen.indices import Index
from sympy import Add, Mul, Pow
SPACE={"occ":OCC,"virt":VIRT,"general":ALL}
def ev_obj(o,asg):
    if o.is_number: return R(QQ(int(o.p),int(o.q)))
    if isinstance(o,Pow): return ev_obj(o.args[0],asg)**int(o.args[1])
    if isinstance(o,KroneckerDelta): return R.one if asg[o.args[0]]==asg[o.args[1]] else R.zero
    if isinstance(o,Amplitude):
        nm=o.name; cc=nm.endswith("cc"); n=int(nm[1:].replace("cc",""))
        return amp('c' if cc else 't', n, tuple(asg[s] for s in o.lower), tuple(asg[s] for s in o.upper))
    if isinstance(o,AntiSymmetricTensor):
        u=tuple(asg[s] for s in o.upper); l=tuple(asg[s] for s in o.lower)
        if o.name=="V": return Vv(u,l)
        if o.name=="f": return fv(u[0],l[0])
    raise NotImplementedError(o)
def evaluate(expr, target):
    expr=expr.expand(); terms=expr.args if isinstance(expr,Add) else (expr,)
    out={}
    for tasg in itertools.product(*(SPACE[s.space] for s in target)):
        base=dict(zip(target,tasg)); tot=R.zero
        for t in terms:
            objs=t.args if isinstance(t,Mul) else (t,)
            contracted=sorted((s for s in t.atoms(Index) if s not in base), key=lambda s:s.name)
            for casg in itertools.product(*(SPACE[s.space] for s in contracted)):
                asg=dict(base); asg.update(zip(contracted,casg)); v=R.one
                for o in objs:
                    v*=ev_obj(o,asg)
                    if v==0: break
                tot+=v
        out[tasg]=tot
    return out
gs=GroundState(Operators("mp")); isr=IntermediateStates(gs,VARIANT); m=SecularMatrix(isr)
idxnames={"ph":("ia","kc"),"pphh":("ijab","klcd"),"h":("i","k"),"phh":("ija","klc"),"p":("a","c"),"pph":("iab","kcd")}
def to_basis(sp,no,nv,tasg):
    o=tasg[:no]; v=tasg[no:]
    if len(set(o))<no or len(set(v))<nv: return 0,None
    so,o=sort_sign(o); sv,v=sort_sign(v)
    return so*sv,(o,v)
for (s1,no1,nv1) in cls:
    for (s2,no2,nv2) in cls:
        bi=idxnames[s1][0]; ki=idxnames[s2][1]
        for order in range(MAXO+1):
            t1=time.time()
            lib=m.isr_matrix_block(order, f"{s1},{s2}", f"{bi},{ki}")
            tg=tuple(get_symbols(bi))+tuple(get_symbols(ki))
            tab=evaluate(lib, tg) if lib!=0 else {t:R.zero for t in itertools.product(*(SPACE[s.space] for s in tg))}
            ok=True
            for tasg,val in tab.items():
                sI,I=to_basis(s1,no1,nv1,tasg[:no1+nv1]); sJ,J=to_basis(s2,no2,nv2,tasg[no1+nv1:])
                if I is None or J is None: exp=R.zero
                else: exp=sI*sJ*M_series(isr_bra[(s1,I)], isr_ket[(s2,J)])[order]
                if exp!=val:
                    ok=False; print("  MISMATCH", tasg, val, "!=", exp); break
            print(VARIANT, s1,s2,"order",order,"OK" if ok else "FAIL", round(time.time()-t1,1))
