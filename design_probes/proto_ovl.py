import sys
sys.argv=[sys.argv[0],"2","2","pp","2"]
src=open("/verif/design_probes/proto_isr.py").read()
cut=src.index("gs=GroundState(Operators(\"mp\")); isr=IntermediateStates")
exec(compile(src[:cut],"proto","exec"))
gs=GroundState(Operators("mp")); isr=IntermediateStates(gs,"pp")
for blk,idx in [("ph,ph","ia,jb"),("ph,pphh","ia,jkbc"),("pphh,ph","ijab,kc"),("pphh,pphh","ijab,klcd")]:
    for order in range(0,3):
        lib=isr.overlap_isr(order, blk, idx)
        tg=tuple(get_symbols(idx.replace(",","")))
        if lib==0: print(blk,order,"lib zero"); continue
        tab=evaluate(lib,tg)
        nz={k:v for k,v in tab.items() if v!=0}
        print(blk, order, "nonzero entries:", len(nz), list(nz.items())[:2])
