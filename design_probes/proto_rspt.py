"""Throwaway feasibility prototype: symbolic RSPT in determinant space + evaluation of library formulas."""
import os, time, itertools
os.environ["ADCGEN_LOG_LEVEL"]="ERROR"
from sympy.polys.rings import ring
from sympy.polys.fields import field
from sympy.polys.domains import QQ
NO_, NV_ = 2, 2
N = NO_+NV_
OCC = list(range(NO_)); VIRT = list(range(NO_, N))
# coefficient field Q(e)
Kf, *E = field(",".join(f"e{p}" for p in range(N)), QQ)
K = Kf.to_domain()
pairs = list(itertools.combinations(range(N),2))
# real antisymmetrised integrals: one var per unordered {pair,pair}
vnames = {}
for a_ in range(len(pairs)):
    for b_ in range(a_, len(pairs)):
        vnames[(pairs[a_],pairs[b_])] = f"V_{pairs[a_][0]}{pairs[a_][1]}_{pairs[b_][0]}{pairs[b_][1]}"
R, *X = ring(",".join(vnames.values()), K)
XV = dict(zip(vnames.keys(), X))
def V(p,q,r,s):
    if p==q or r==s: return R.zero
    sg = 1
    if p>q: p,q=q,p; sg=-sg
    if r>s: r,s=s,r; sg=-sg
    a_,b_ = (p,q),(r,s)
    if pairs.index(a_) > pairs.index(b_): a_,b_=b_,a_
    return sg*XV[(a_,b_)]
def e(p): return R(E[p])  # hmm: need ground element
# determinant algebra
def apply_op(kind, p, det):
    """kind '+' create / '-' annihilate on bitstring det (int). returns (sign, newdet) or None"""
    bit = 1<<p
    if kind=='+':
        if det & bit: return None
    else:
        if not det & bit: return None
    sign = -1 if bin(det & (bit-1)).count("1")%2 else 1
    return sign, det ^ bit
def apply_string(ops, state):
    """ops: list of (kind,p) applied right-to-left (last op acts first)."""
    out = {}
    for det, c in state.items():
        d, s = det, 1
        ok=True
        for kind,p in reversed(ops):
            r = apply_op(kind,p,d)
            if r is None: ok=False;break
            s*=r[0]; d=r[1]
        if ok:
            out[d] = out.get(d, R.zero) + s*c
    return out
REF = sum(1<<i for i in OCC)
def add(a,b,fac=1):
    out=dict(a)
    for k,v in b.items(): out[k]=out.get(k,R.zero)+fac*v
    return {k:v for k,v in out.items() if v!=0}
def scal(a,c): return {k:v*c for k,v in a.items() if v*c!=0}
def H1(state):
    out={}
    # one-body: -sum_i V_{pi,qi} a+p aq
    for p in range(N):
        for q in range(N):
            c = -sum((V(p,i,q,i) for i in OCC), R.zero)
            if c==0: continue
            out = add(out, scal(apply_string([('+',p),('-',q)], state), c))
    for p,q in pairs:
        for r,s in pairs:
            c = V(p,q,r,s)   # 1/4 sum over all = sum over p<q,r<s
            out = add(out, scal(apply_string([('+',p),('+',q),('-',s),('-',r)], state), c))
    return out
def e0(det): return sum((E[p] for p in range(N) if det>>p & 1), Kf.zero)
def rspt(nmax):
    psi=[{REF:R.one}]; en=[R(e0(REF))]
    for n in range(1,nmax+1):
        h = H1(psi[n-1])
        en.append(h.get(REF,R.zero))
        rhs = dict(h)
        for m in range(1,n+1):
            rhs = add(rhs, psi[n-m], fac=-en[m])
        new={}
        for det,c in rhs.items():
            if det==REF: continue
            new[det]= c * R(1/(e0(REF)-e0(det)))
        psi.append(new)
    return psi,en
t0=time.time()
psi,en = rspt(3)
print("rspt", time.time()-t0, [len(p) for p in psi], [len(x) for x in en])
t0=time.time()
h=H1(psi[3]); e4=h.get(REF,R.zero); print("E4 terms", len(e4), time.time()-t0)

# ---------------- evaluator for library expressions -----------------
from sympy import Add, Mul, Pow, Rational, Integer, S
from adcgen.sympy_objects import (AntiSymmetricTensor, SymmetricTensor, NonSymmetricTensor,
                                  KroneckerDelta, Amplitude)
from adcgen.indices import Index
SPACE = {"occ": OCC, "virt": VIRT, "general": list(range(N))}
def perm_sign_sort(t):
    t=list(t); s=1
    for i in range(len(t)):
        for j in range(len(t)-1-i):
            if t[j]>t[j+1]: t[j],t[j+1]=t[j+1],t[j]; s=-s
    return s, tuple(t)
class Model:
    def __init__(self, tensors):
        self.tensors = tensors   # name -> callable(upper_orbs, lower_orbs) -> ring element
    def obj(self, o, asg):
        if o.is_number:
            return R(QQ(o.p, o.q)) if o.is_Rational else None
        if isinstance(o, Pow):
            b, ex = o.args
            v = self.obj(b, asg)
            if ex.is_Integer and ex > 0: return v**int(ex)
            if ex.is_Integer and ex < 0:
                # must be a ground element
                assert v.is_ground, v
                return R(1/Kf(v.coeff(1)))**int(-ex)
            raise NotImplementedError(o)
        if isinstance(o, Add):
            return sum((self.term(t, asg) for t in o.args), R.zero)
        if isinstance(o, Mul):
            return self.term(o, asg)
        if isinstance(o, KroneckerDelta):
            p,q = o.args
            return R.one if asg[p]==asg[q] else R.zero
        if isinstance(o, NonSymmetricTensor):
            idx = tuple(asg[s] for s in o.idx)
            return self.tensors[o.name](idx, ())
        if isinstance(o, AntiSymmetricTensor):
            return self.tensors[o.name](tuple(asg[s] for s in o.upper), tuple(asg[s] for s in o.lower))
        raise NotImplementedError(type(o))
    def term(self, t, asg):
        res = R.one
        for o in (t.args if isinstance(t, Mul) else (t,)):
            v = self.obj(o, asg)
            if v == 0: return R.zero
            res *= v
        return res
    def evaluate(self, expr, target):
        """returns dict {target assignment tuple: ring element}"""
        expr = expr.expand()
        terms = expr.args if isinstance(expr, Add) else (expr,)
        out = {}
        for tasg in itertools.product(*(SPACE[s.space] for s in target)):
            base = dict(zip(target, tasg))
            tot = R.zero
            for t in terms:
                contracted = sorted((s for s in t.atoms(Index) if s not in base), key=lambda s: s.name)
                for casg in itertools.product(*(SPACE[s.space] for s in contracted)):
                    asg = dict(base); asg.update(zip(contracted, casg))
                    tot += self.term(t, asg)
            out[tasg] = tot
        return out

def eri_val(u,l): return V(u[0],u[1],l[0],l[1])
def orb_e(idx,_): return R(E[idx[0]])
def fock_val(u,l): return R(E[u[0]]) if u[0]==l[0] else R.zero

import adcgen
from adcgen import Operators, GroundState, get_symbols
from adcgen.intermediates import Intermediates
gs = GroundState(Operators("mp"))
# explicit amplitudes
def det_of(occ_removed, virt_added):
    d = REF
    for i in occ_removed: d ^= 1<<i
    for a_ in virt_added: d ^= 1<<a_
    return d
def phase_state(virt, occ):
    """a+_{v1} a+_{v2}... a_{o_n} ... a_{o_1} |ref>  (reverse_annihilation) -> (sign, det)"""
    ops = [('+',v) for v in virt] + [('-',o) for o in reversed(occ)]
    st = apply_string(ops, {REF:R.one})
    if not st: return None
    (d,c), = st.items()
    return (1 if c==R.one else -1), d
def t_explicit(order):
    def val(u,l):   # upper = virt, lower = occ
        ps = phase_state(u,l)
        if ps is None: return R.zero
        sg,d = ps
        c = psi[order].get(d, R.zero)*sg
        return -c if len(u)==2 else c
    return val
model = Model({"V": eri_val, "e": orb_e, "f": fock_val, "t1": t_explicit(1), "t2": t_explicit(2), "t3": t_explicit(3),
               "t1cc": t_explicit(1), "t2cc": t_explicit(2)})
t0=time.time()
for n in range(0,5):
    val = model.evaluate(gs.energy(n), ())[()]
    ref = en[n] if n<4 else e4
    print("E",n, val==ref, time.time()-t0)
i,j,a,b = get_symbols("ijab")
for order,space,idx,tg in [(1,"pphh","ijab",(i,j,a,b)),(2,"ph","ia",(i,a)),(2,"pphh","ijab",(i,j,a,b)),(3,"ph","ia",(i,a)),(3,"pphh","ijab",(i,j,a,b))]:
    val = model.evaluate(gs.amplitude(order,space,idx), tg)
    name=f"t{order}"
    ok = all(v == (model.tensors[name](tuple(k[len(k)//2:]), tuple(k[:len(k)//2]))) for k,v in val.items())
    print("amp", order, space, ok, time.time()-t0)
itm = Intermediates().available
for nm,order,tg in [("t2_1",1,(i,j,a,b)),("t1_2",2,(i,a)),("t2_2",2,(i,j,a,b)),("t1_3",3,(i,a)),("t2_3",3,(i,j,a,b))]:
    ex = itm[nm].expand_itmd(indices="".join(s.name for s in tg), fully_expand=True).sympy
    val = model.evaluate(ex, tg)
    name=f"t{order}"
    ok = all(v == (model.tensors[name](tuple(k[len(k)//2:]), tuple(k[:len(k)//2]))) for k,v in val.items())
    print("itmd", nm, ok, time.time()-t0)
