import sys, time, json, multiprocessing as mp, os
os.environ.setdefault("ADCGEN_LOG_LEVEL","ERROR")

def run(item):
    kind, args = item
    import adcgen
    from adcgen import Operators, GroundState, IntermediateStates, SecularMatrix, Properties
    from adcgen.expr_container import Expr
    t0=time.time()
    try:
        if kind=="energy":
            variant, order = args
            gs = GroundState(Operators(variant)); r = gs.energy(order)
        elif kind=="amp":
            variant, order, space, idx, singles = args
            gs = GroundState(Operators(variant), singles); r = gs.amplitude(order, space, idx)
        elif kind=="expec":
            variant, order, n = args
            gs = GroundState(Operators(variant)); r = gs.expectation_value(order, n)
        elif kind=="overlap_isr":
            adc, order, block, idx = args
            isr = IntermediateStates(GroundState(Operators("mp")), adc); r = isr.overlap_isr(order, block, idx)
        elif kind=="m":
            adc, order, block, idx = args
            isr = IntermediateStates(GroundState(Operators("mp")), adc); m = SecularMatrix(isr); r = m.isr_matrix_block(order, block, idx)
        elif kind=="expec_block":
            adc, order, block, n = args
            isr = IntermediateStates(GroundState(Operators("mp")), adc); p = Properties(isr); r = p.expec_block_contribution(order, block, n)
        elif kind=="tm":
            adc, order, space = args
            isr = IntermediateStates(GroundState(Operators("mp")), adc); p = Properties(isr); r = p.trans_moment_space(order, space)
        n = len(Expr(r)) if r != 0 else 0
        return (kind, args, round(time.time()-t0,2), n)
    except Exception as ex:
        return (kind, args, round(time.time()-t0,2), "ERR "+repr(ex)[:200])

items = []
for v in ["mp","re"]:
    for o in range(0,5): items.append(("energy",(v,o)))
for o,sp,idx in [(1,"pphh","ijab"),(2,"ph","ia"),(2,"pphh","ijab"),(2,"ppphhh","ijkabc"),(2,"pppphhhh","ijklabcd"),(3,"ph","ia"),(3,"pphh","ijab"),(3,"ppphhh","ijkabc")]:
    items.append(("amp",("mp",o,sp,idx,False)))
for o,sp,idx in [(1,"pphh","ijab"),(1,"ph","ia"),(2,"ph","ia"),(2,"pphh","ijab"),(2,"ppphhh","ijkabc"),(3,"ph","ia")]:
    items.append(("amp",("re",o,sp,idx,False)))
    items.append(("amp",("re",o,sp,idx,True)))
for o in range(0,5):
    for n in (1,2): items.append(("expec",("mp",o,n)))
blocks = {"pp":[("ph,ph","ia,jb"),("ph,pphh","ia,jkbc"),("pphh,ph","ijab,kc"),("pphh,pphh","ijab,klcd")],
          "ip":[("h,h","i,j"),("h,phh","i,jka"),("phh,h","ija,k"),("phh,phh","ija,klb")],
          "ea":[("p,p","a,b"),("p,pph","a,ibc"),("pph,p","iab,c"),("pph,pph","iab,jcd")],
          "dip":[("hh,hh","ij,kl"),("hh,phhh","ij,klma"),("phhh,hh","ijka,lm")],
          "dea":[("pp,pp","ab,cd"),("pp,ppph","ab,icde")]}
for adc, bl in blocks.items():
    for b,idx in bl:
        for o in range(0,4):
            items.append(("m",(adc,o,b,idx)))
            items.append(("overlap_isr",(adc,o,b,idx)))
            if o<=2: items.append(("expec_block",(adc,o,b,1)))
for adc, sp in [("pp","ph"),("pp","pphh"),("ip","h"),("ip","phh"),("ea","p"),("ea","pph")]:
    for o in range(0,4): items.append(("tm",(adc,o,sp)))

if __name__=="__main__":
    out = open("/tmp/explore/timing.jsonl","w")
    with mp.Pool(14, maxtasksperchild=1) as pool:
        res = [(it, pool.apply_async(run,(it,))) for it in items]
        deadline = time.time()+float(sys.argv[1])
        for it, r in res:
            try:
                v = r.get(timeout=max(1,deadline-time.time()))
            except mp.TimeoutError:
                v = (it[0], it[1], None, "TIMEOUT")
            out.write(json.dumps(v)+"\n"); out.flush()
        pool.terminate()
