#!/bin/bash
# run_seed.sh <seed-name> <PID> [tier] : apply a kept seeded change to /repo, run the check, undo.
name=$1; pid=$2; tier=${3:-quick}
cd /repo && git apply /verif/seeded/$name/patch.diff || { echo "patch does not apply"; exit 2; }
cp /verif/evidence/$pid.json /tmp/evidence_backup_$pid.json 2>/dev/null
cd /verif && /venv/bin/python run_check.py $pid --tier $tier > /tmp/seedrun_${name}_$pid.log 2>&1; rc=$?
git -C /repo checkout -- .
cp /tmp/evidence_backup_$pid.json /verif/evidence/$pid.json 2>/dev/null
echo "seed=$name check=$pid rc=$rc $(grep -c '^VIOLATION' /tmp/seedrun_${name}_$pid.log) violation-line(s); $(tail -2 /tmp/seedrun_${name}_$pid.log | head -1 | cut -c1-300)"
