#!/bin/bash
# confirm_seed.sh <seed-name> <worktree>  : independently confirm a seeded change
#  (tests pass with it, demo fails with it and passes without it), then keep it
#  under /verif/seeded/<seed-name>/ and remove the worktree.
name=$1; wt=$2
cd "$wt" || exit 2
export PYTHONPATH=$wt ADCGEN_LOG_LEVEL=ERROR
log=/tmp/confirm_$name.log
{
echo "== adcgen from: $(/venv/bin/python -c 'import adcgen;print(adcgen.__file__)')"
git diff --stat -- adcgen
git diff -- adcgen > /tmp/confirm_$name.diff
if ! diff -q /tmp/confirm_$name.diff seed/patch.diff >/dev/null; then echo "NOTE: patch.diff differs from working-tree diff; using working-tree diff"; cp /tmp/confirm_$name.diff seed/patch.diff; fi
echo "== demo with change"
/venv/bin/python seed/demo.py >/tmp/confirm_${name}_demo1.out 2>&1; rc1=$?
echo "rc=$rc1"; tail -5 /tmp/confirm_${name}_demo1.out
echo "== tests with change"
/venv/bin/python -m pytest -q -p no:cacheprovider -n 4 --timeout=900 tests 2>&1 | tail -3 > /tmp/confirm_${name}_tests.out; cat /tmp/confirm_${name}_tests.out
git apply -R seed/patch.diff
echo "== demo without change"
/venv/bin/python seed/demo.py >/tmp/confirm_${name}_demo0.out 2>&1; rc0=$?
echo "rc=$rc0"; tail -3 /tmp/confirm_${name}_demo0.out
git apply seed/patch.diff
tests_ok=0; grep -q "127 passed" /tmp/confirm_${name}_tests.out && ! grep -q failed /tmp/confirm_${name}_tests.out && tests_ok=1
if [ $rc1 -ne 0 ] && [ $rc0 -eq 0 ] && [ $tests_ok -eq 1 ]; then
  mkdir -p /verif/seeded/$name
  cp seed/patch.diff seed/demo.py /verif/seeded/$name/
  /venv/bin/python - "$name" <<PY
import json,sys
name=sys.argv[1]
try: meta=json.load(open("seed/meta.json"))
except Exception as e: meta={"note":"agent meta unreadable: %s"%e}
meta["confirmed_by_main"]={"tests_with_change":open("/tmp/confirm_%s_tests.out"%name).read().strip().splitlines()[-1],
  "demo_rc_with_change":$rc1,"demo_rc_without_change":$rc0,
  "ran":"pytest -n 4 tests (all 127) in the scratch worktree with the change; seed/demo.py with and without (git stash) the change"}
json.dump(meta,open("/verif/seeded/%s/meta.json"%name,"w"),indent=1)
PY
  echo "CONFIRMED $name"
else
  echo "REJECTED $name rc1=$rc1 rc0=$rc0 tests_ok=$tests_ok"
fi
} > $log 2>&1
cd /; git -C /repo worktree remove --force "$wt"
tail -1 $log
