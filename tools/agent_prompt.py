"""prints the prompt given to an independent sub-agent that seeds a property-breaking change"""
import json, sys
pid, wt = sys.argv[1], sys.argv[2]
variant = sys.argv[3] if len(sys.argv) > 3 else ""
for l in open("/verif/properties.jsonl"):
    p = json.loads(l)
    if p["id"] == pid:
        break
print(f"""You are working on a scratch git worktree of the Python library adcgen (symbolic derivation of ADC quantum-chemistry equations with sympy) at {wt}. Work ONLY inside {wt}; never read or touch /repo or /verif.

Run python as:  cd {wt} && PYTHONPATH={wt} ADCGEN_LOG_LEVEL=ERROR /venv/bin/python ...   and first confirm that `import adcgen; print(adcgen.__file__)` points into {wt}.

Here is a semantic property that the library is supposed to satisfy:

  TITLE: {p['title']}
  STATEMENT: {p['statement']}
  QUANTIFIED OVER: {p['quantifier']['text']}
  CODE IT IS ANCHORED IN: {', '.join(p['anchors']['files'])}

Your task: make a realistic, small change (a plausible bug a developer could introduce: an off-by-one, a swapped branch, a dropped condition, a wrong sign/prefactor in a corner case, a stale cache, a wrong sort key ...) to the library source under {wt}/adcgen that BREAKS this property, while the library still imports and the ENTIRE existing test suite still passes. The change must need something specific to manifest (an unusual input, a particular index pattern, a multi-step sequence of calls, a corner of the input space, or two cooperating sites that each look fine alone) - not something that ordinary use would expose at once. {variant}

Requirements:
1. The existing tests must still pass with your change. Run them:  cd {wt} && PYTHONPATH={wt} /venv/bin/python -m pytest -q -p no:cacheprovider -n 6 --timeout=900 tests   (about 2-4 minutes; all 127 must pass). If a test fails, choose a different change.
2. Write a demonstration {wt}/seed/demo.py : a small self-contained program using the public adcgen API that exits 0 on the ORIGINAL code and exits non-zero (assert failure) WITH your change, because the property is violated (compare against a hand-computed / independently computed expected value; do not merely compare against a stored string). Verify both: run it with your change (must fail), then undo it with `git diff -- adcgen > /tmp/{pid}_mine.diff && git apply -R /tmp/{pid}_mine.diff`, run it (must pass), then `git apply /tmp/{pid}_mine.diff` (do NOT use git stash: the stash is shared between worktrees).
3. Write the change as a patch:  cd {wt} && git diff -- adcgen > seed/patch.diff   (create the seed directory; the patch must apply to a clean checkout with `git apply`).
4. Write {wt}/seed/meta.json with keys: property (="{pid}"), summary (one sentence: what was changed), needs (what is needed for the violation to manifest), files (list), tests_passed (true/false + the pytest summary line), demo_fails_with_change (true/false), demo_passes_without_change (true/false).
5. Leave the worktree with your change applied and the seed/ directory present. Do not commit.

Reply with a short report: what you changed, why the tests do not notice, what input exposes it.""")
