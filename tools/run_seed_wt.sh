#!/bin/bash
# run_seed_wt.sh <seed-name> <PID> [tier] : run a check against a scratch worktree of /repo
# with a kept seeded change applied (PYTHONPATH override; /repo itself is not touched, no
# evidence is written).  Prints one summary line; full log in /tmp/seedrun_<name>_<PID>.log
name=$1; pid=$2; tier=${3:-quick}
wt=/tmp/seedwt_${name}_$$
git -C /repo worktree add --detach "$wt" HEAD >/dev/null 2>&1 || { echo "worktree failed"; exit 2; }
git -C "$wt" apply /verif/seeded/$name/patch.diff || { echo "seed=$name patch does not apply"; git -C /repo worktree remove --force "$wt"; exit 2; }
log=/tmp/seedrun_${name}_$pid.log
cd /verif && PYTHONPATH="$wt" VERIF_NO_EVIDENCE=1 VERIF_REPLAY_DIR=/tmp/seedreplays /venv/bin/python run_check.py $pid --tier $tier > $log 2>&1; rc=$?
git -C /repo worktree remove --force "$wt"
echo "seed=$name check=$pid rc=$rc $(grep -c '^VIOLATION' $log) violation-line(s); $(grep -m1 'adcgen_from' $log); $(grep "^$pid tier" $log | cut -c1-250)"
