"""prints the prompt given to a sub-agent that BUILDS one check module (not a seeding agent)"""
import json
import sys

pid = sys.argv[1]
extra = sys.argv[2] if len(sys.argv) > 2 else ""
for l in open("/verif/properties.jsonl"):
    p = json.loads(l)
    if p["id"] == pid:
        break
low = pid.lower()
print(f"""You are helping to build a verification framework (bounded-exhaustive *model checking* of a Python library) that lives in /verif and checks the library jonasleitner/adcgen, which is checked out at /repo (installed editable into /venv, so `/venv/bin/python -c "import adcgen"` imports /repo/adcgen). Your job: write ONE new check module, /verif/vmc/checks/{low}.py, that decides property {pid} below, in the style of the existing check modules.

PROPERTY {pid}: {p['title']}
STATEMENT: {p['statement']}
QUANTIFIED OVER: {p['quantifier']['text']}
WHY UNIT TESTS CANNOT SETTLE IT: {p['why_tests_cant']}
ANCHORS: {json.dumps(p['anchors'], indent=1)}

READ FIRST (in this order):
  1. /verif/DESIGN.md sections 0, 2, 3 and the section "### {pid}" of section 4 (the plan for this check: E = what is enumerated, O = oracle, M = mutants it must catch, L = limits). Section 5 lists defects already known.
  2. /verif/vmc/harness.py (docstring at the top = the interface of a check module: ID, RULE, ASSUMPTIONS, generate(tier), run_case(case), optional bounds/describe/finalize/FRESH_FORK/CASE_TIMEOUT/CHUNK), /verif/run_check.py.
  3. /verif/vmc/evalexpr.py, /verif/vmc/model.py, /verif/vmc/ring.py (the exact reference semantics: tensor entries are formal indeterminates, values are polynomials over Q, equality is exact), /verif/vmc/gen.py (term grammar, index patterns), /verif/vmc/checks/common.py.
  4. Two or three existing checks as templates: /verif/vmc/checks/c09.py (small), c10.py, c13.py, c20.py.
  5. The adcgen source files named in the anchors.

HARD RULES
  * The deciding step must be EXHAUSTIVE ENUMERATION of a finite, explicitly described space of inputs / histories / configurations (simplest first), each run against the REAL adcgen entry points, each decided by an INDEPENDENT oracle (the reference interpreter in vmc/evalexpr.py, or your own small reference code) - never random sampling, never adcgen's own simplify() as equality oracle.
  * The oracle must not demand more than the property states: the check must be SILENT (exit 0, no VIOLATION line) on the unchanged /repo tree, and must stay silent under harmless refactorings of adcgen (different but value-equal output, different names of contracted indices, different term order). Compare VALUES (tables), not strings, unless the property itself is about text.
  * Documented refusals (NotImplementedError / Inputerror on inputs outside the documented domain) are not violations; count them.
  * Do NOT edit anything under /repo. Do NOT edit existing files in /verif (harness.py, evalexpr.py, gen.py, model.py, ring.py, common.py, MANIFEST.json, known_findings.json, DESIGN.md, other checks) - if you need a helper, put it into your own new module /verif/vmc/{low}_*.py or inside your check module. Do NOT read /verif/seeded (those are held-out test mutations). Do NOT git commit anything.
  * Run the check with:   cd /verif && VERIF_NO_EVIDENCE=1 /venv/bin/python run_check.py {pid} --tier quick [--nproc 8]
    Other work is running on this 16-core machine; use --nproc 8 while developing. Targets: quick tier <= about 3 minutes wall with 16 workers, thorough tier <= about 40 minutes. Both tiers must enumerate their space completely (report caps if any).
  * Every result dict needs a specific `finding` string for violations (a classification of the failing input class / call site, used to match known findings), a canonical `key`, an `outcome` string (short description of the observed result shape; many different outcomes show the exploration is not vacuous) and an honest `nontrivial` flag.
  * If the check reports violations on the unchanged tree, work out which it is: (a) your oracle/harness is wrong or demands too much -> fix the check; (b) adcgen really violates the property text -> that is a genuine finding: do NOT touch /repo; give these cases their own precise `finding` key, and report to me the minimal failing input, what adcgen returns, what would be right, and (if small) a proposed patch as a diff in your final report. I will then repair adcgen or list the finding as known.
  * DEMONSTRATE DETECTION yourself: for at least 3 realistic mutations of adcgen in the mechanisms anchored above (ideas: the M list of the DESIGN section; wrong prefactor / sign / dropped condition in a corner case), create a scratch worktree (git -C /repo worktree add --detach /tmp/{low}_mut_<k> HEAD), edit the file THERE, run the check against it with   cd /verif && PYTHONPATH=/tmp/{low}_mut_<k> VERIF_NO_EVIDENCE=1 VERIF_REPLAY_DIR=/tmp/{low}_replays /venv/bin/python run_check.py {pid} --tier quick   (the summary prints adcgen_from=... so you can confirm that the worktree was imported), expect exit 1 and a VIOLATION line, then remove the worktree (git -C /repo worktree remove --force /tmp/{low}_mut_<k>). If a mutation is not detected, strengthen the enumeration/oracle (if the mutation really breaks the property).
  * Keep scratch files under /tmp and delete them at the end.
{extra}
FINAL REPORT (your reply): (1) what is enumerated, bounds per tier, measured counts (cases, states, nontrivial, distinct outcomes) and wall times; (2) the oracle and why it is independent and not over-demanding; (3) findings on the unchanged tree (with repro + proposed patch) or "none"; (4) mutations tried and whether detected; (5) two short texts I can paste into the manifest: `level_claimed.text` (what assurance the check gives) and `level_note` (trusted base, bounds); (6) anything you could not cover.""")
