#!/bin/bash
# run_all_seeds.sh [tier] [seed-name ...] : run every kept seeded change (or the named ones)
# against the check of the property it breaks (scratch worktree, /repo untouched) and
# write one line per seed to /verif/seeded/RESULTS.txt
tier=${1:-quick}; shift
cd /verif
names="$@"
[ -z "$names" ] && names=$(ls seeded | grep -v RESULTS)
for name in $names; do
  [ -f seeded/$name/meta.json ] || continue
  pid=$(python3 -c "import json;print(json.load(open('seeded/$name/meta.json'))['property'])")
  [ -f vmc/checks/$(echo $pid | tr A-Z a-z).py ] || { echo "seed=$name check=$pid NOT-BUILT"; continue; }
  line=$(tools/run_seed_wt.sh $name $pid $tier)
  echo "$line"
  grep -v "^seed=$name " seeded/RESULTS.txt 2>/dev/null > /tmp/results_$$.txt
  echo "$line" | sed 's/adcgen_from=[^;]*; //' >> /tmp/results_$$.txt
  sort /tmp/results_$$.txt > seeded/RESULTS.txt; rm -f /tmp/results_$$.txt
done
