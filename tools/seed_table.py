"""prints the markdown table 'seeded change -> detected by' from
/verif/seeded/*/meta.json and /verif/seeded/RESULTS.txt"""
import glob
import json
import os
import re

HERE = os.path.dirname(os.path.dirname(os.path.abspath(__file__)))
res = {}
p = os.path.join(HERE, "seeded", "RESULTS.txt")
if os.path.exists(p):
    for line in open(p):
        m = re.match(r"seed=(\S+) check=(\S+) rc=(\d+) (\d+) violation", line)
        if m:
            v = re.search(r"violations=(\d+)", line)
            res.setdefault(m.group(1), []).append(
                (m.group(2), int(m.group(3)), int(v.group(1)) if v else None,
                 "thorough" if "tier=thorough" in line else "quick"))
print("| seed | property | change (one line) | needs | detected by |")
print("|---|---|---|---|---|")
for d in sorted(glob.glob(os.path.join(HERE, "seeded", "*", "meta.json"))):
    name = os.path.basename(os.path.dirname(d))
    m = json.load(open(d))
    summ = re.sub(r"\s+", " ", str(m.get("summary", "")))[:230]
    needs = re.sub(r"\s+", " ", str(m.get("needs", "")))[:200]
    det = []
    for chk, rc, nv, tier in res.get(name, []):
        if rc == 1:
            det.append(f"{chk} {tier} ({nv} violating cases)")
        else:
            det.append(f"{chk} {tier}: NOT detected (rc={rc})")
    print(f"| {name} | {m.get('property')} | {summ.replace('|', '/')} | "
          f"{needs.replace('|', '/')} | {'; '.join(det) or 'not run yet'} |")
