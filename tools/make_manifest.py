#!/venv/bin/python
"""(Re)writes /verif/MANIFEST.json from the table below and validates it
against /root/.vp/MANIFEST.schema.json when jsonschema is importable."""
import json
import os

HERE = os.path.dirname(os.path.dirname(os.path.abspath(__file__)))

TECH = ("bounded-exhaustive explicit-state exploration of the real adcgen "
        "entry points (hand-written explorer, no sampling) against an "
        "independent exact reference semantics")

CHECKS = {
    "C07": dict(
        text="Every sum a*T1+b*T2(+c*T3) with T1 from a 48-shape term grammar "
             "(<=3 objects, every index pattern up to renaming) and T2 every "
             "renaming of contracted indices / single-slot edit / slot "
             "transposition / exponent change of T1 is passed to the real "
             "simplify(); value equality is decided exactly (formal "
             "indeterminates, N >= #index symbols so valid for all orbital "
             "spaces), together with term count, targets, assumptions and the "
             "merge requirement for alpha-equivalent terms.",
        design="4 C07",
        note="Trusted: vmc/ring.py, vmc/evalexpr.py, vmc/model.py (reference "
             "interpreter, cross-checked against a naive loop evaluator), "
             "sympy's construction-time canonicalisation of the input. Bounded:"
             " <=3 objects per term, <=3 terms per sum, shapes of the grammar; "
             "polynomial denominators excluded (documented as unsupported by "
             "simplify)."),
    "C20": dict(
        text="Every product of 1..3 unitary factors U (NonSymmetricTensor and "
             "(1,1) AntiSymmetricTensor, exponents <=2) over every index "
             "pattern of a 4-index pool, times 0..2 remainder tensors, for the "
             "Einstein and every explicit target set and evaluate_deltas "
             "on/off, is passed to the real simplify_unitary(); the value is "
             "compared exactly with U the Cayley transform of a formal skew "
             "matrix (N=2,3, both components of O(N)); untouched-ness is "
             "checked with an independent predicate.",
        design="4 C20",
        note="Trusted: reference interpreter; orthogonal matrices of size 2 "
             "and 3 only (rational parametrisation dense in O(N)); <=3 U "
             "factors, <=3 remainder slots."),
}

CHECKS.update({
    "C06": dict(
        text="Every index tuple (with repetition) over a 9-name pool (3 "
             "spaces, spins, numbered names) is fed to the real constructors of"
             " AntiSymmetricTensor/SymmetricTensor/Amplitude x bra-ket symmetry"
             " 0,+1,-1 x ranks up to (3,3); the declared symmetry group is "
             "enumerated by brute force: covariance under a generating set on "
             "the (group-closed) tuple set, forced zeros exactly at "
             "stabilisers with character -1, global injectivity orbit -> "
             "canonical object; every delta pair and power; substitution "
             "commutes with construction for every index map with <=2 moved "
             "names; assumption declarations are idempotent, local and value "
             "preserving in the model satisfying them.",
        design="4 C06",
        note="Trusted: the brute-force group enumeration (40 lines) and the "
             "reference interpreter for part D. Bounded: rank <= (3,3), (3,3) "
             "over 5 (7) names, maps with <= 2 moved names."),
    "C08": dict(
        text="order_substitutions on every partial index map over a 5-index "
             "pool x every dict insertion order vs. simultaneous substitution; "
             "Container.permute on every word of <=4 transpositions vs. "
             "sequential swaps; substitute_contracted / substitute_with_generic"
             " on grammar terms x target sets and a crowded-name family "
             "(targets untouched, no merging, value, lowest / fresh names by "
             "an independent spec); minimize_tensor_indices on every tuple of "
             "<=4 names x target sets; BFS with canonical state hashing over "
             "histories of requests to a fresh Indices registry (identity, "
             "freshness, well-formedness at every state).",
        design="4 C08",
        note="Trusted: the 10-line name-sequence spec, reference interpreter. "
             "Bounded: pool sizes, words <=4, BFS depth 4 (5), 15-event "
             "alphabet; registry reset through Singleton._instances."),
    "C09": dict(
        text="Every multiset of 1..3 non-vanishing Kronecker deltas over a "
             "9 (14) name pool with occupied/virtual/general and alpha/beta/no "
             "spin, times every choice of tensor index tuples, times every "
             "target set (Einstein and every explicit subset) is passed to "
             "the real evaluate_deltas; exact value equality in the "
             "spin-resolved free model, survival of targets, information "
             "order within delta components.",
        design="4 C09",
        note="Domain restriction taken from the property (contracted indices "
             "occur on a non-delta object). Bounded: <=3 deltas, <=2 tensors, "
             "pool size."),
})

CHECKS.update({
    "C13": dict(
        text="A fraction grammar (8 remainder families with different "
             "contracted/target splits x every set of <=2 (3) singles/doubles/"
             "triples brackets with both signs and exponents 1..2 x ~10 "
             "numerators with rational coefficients x prefactors) is passed "
             "through EriOrbenergy split/recombine, canonicalize_sign, "
             "permute_num, cancel_orb_energy_frac, symbolic_denominator, "
             "use_symbolic/explicit_denominators (both directions), "
             "factor_eri_parts, factor_denom and (block_)diagonalize_fock on "
             "29 Fock inputs; values compared exactly as rational functions "
             "of formal orbital energies.",
        design="4 C13",
        note="Documented refusals (RuntimeError 'Ambiguous signs', "
             "Inputerror, NotImplementedError) are counted, not alarms. "
             "Bounded: brackets with +-1 coefficients, <=3 brackets, N=2/3."),
})

CHECKS.update({
    "C10": dict(
        text="Term.symmetry (all / only_target / only_contracted) and "
             "Obj.symmetry on ~400 grammar terms (<=3 objects, incl. "
             "orbital-energy denominators) x target sets: every reported "
             "(permutation product, +-1) is verified by permuting the "
             "assignment of the pointwise value table; exploit_perm_sym on "
             "sums T + sum_g chi(g) g(T) for every subset (<=3 elements, and "
             "the full group) of the target permutation group x target-string "
             "splits x bra-ket symmetry x (anti)symmetric result: re-expanded "
             "parts equal the input by value; the five sort functions and "
             "filter_tensor: parts sum to the input and keys are recomputed "
             "independently.",
        design="4 C10",
        note="Trusted: reference interpreter; permutation products read as "
             "documented for Container.permute. Bounded: 7 generating terms "
             "for exploit_perm_sym, target groups over ijab / ijk. "
             "Term.symmetry() over all indices is skipped when an index list "
             "with multiplicity exceeds 4 entries per space (the library's "
             "enumeration does not terminate in reasonable time there)."),
})

CHECKS.update({
    "C18": dict(
        text="Every product of 1..2 (3) objects from a 42-object zoo covering "
             "every printable kind (antisymmetric tensors, t/ADC amplitudes "
             "incl. cc, Coulomb integrals, symbolic denominators, "
             "non-symmetric tensors, deltas, spin-labelled and numbered "
             "indices, powers, orbital-energy brackets, a/a^dagger, NO groups) "
             "x 8 prefactors, 3-term sums, and 11 outputs of the derivation "
             "API are printed, imported and re-assumed; value table (exact), "
             "tensor kind per symbol and text fixpoint are compared.",
        design="4 C18",
        note="Trusted: reference interpreter. Bounded: zoo, <=2 (3) objects "
             "per term; derivation outputs of order <=2. Operator expressions "
             "are compared structurally."),
})

CHECKS.update({
    "C16": dict(
        text="~1500 grammar terms with 1..4 objects (single tensors, traces, "
             "outer products, disconnected groups, hyper-contractions, powers, "
             "deltas, spin labels) x every ordering of the target indices x 5 "
             "limit settings x optimised/unoptimised are passed to the real "
             "optimize_contractions / unoptimized_contraction; the returned "
             "scheme is interpreted step by step on formal value tables: each "
             "object used exactly exponent times, each intermediate once, "
             "each contracted index summed once, last step = the term in the "
             "requested axis order, limits obeyed, scaling recounted, maximal "
             "scaling <= single simultaneous contraction.",
        design="4 C16",
        note="Trusted: reference interpreter (contract()). Bounded: <=4 "
             "objects, shapes of the lists in c16.py. RuntimeError under a "
             "limit = refusal; result-shaped intermediates are exempt from "
             "max_itmd_dim as documented."),
    "C17": dict(
        text="The C16 terms x 10 prefactors (integers, rationals, sqrt, "
             "symbols) x target orders, sums T + chi*P(T) over subsets of the "
             "target permutation group x ',' splits x bra-ket symmetry x "
             "(anti)symmetric result, both backends, optimised and "
             "unoptimised: the emitted text is parsed and executed by an "
             "independent interpreter (vmc/codeinterp.py: einsum incl. "
             "nesting and scalar factors, contract / dot_product / outer "
             "product with labelled tensors, both prefactor syntaxes, "
             "'Apply (1 +- P..)' headers) on formal tensor values and "
             "compared with the expression's value table in the requested "
             "axis order; refusals must be NotImplementedError and never on "
             "the supported core.",
        design="4 C17",
        note="Trusted: vmc/codeinterp.py and the re-typed name tables. "
             "Bounded: single-letter index names without spin, <=4 objects "
             "per term, <=3 terms per expression."),
})

CHECKS.update({
    "C01": dict(
        text="Part A: every operator word over {a+, a} x {occupied, virtual, "
             "general} index names up to length 4 (thorough: up to 3 names "
             "per space; length 5, 6 over i,j,a,b,p) up to renaming, x every "
             "placement of normal-ordered groups x every contracted subset "
             "(carried by a coefficient tensor) x simplify_kronecker_deltas "
             "x block-exclusion rule sets is passed to the real wicks(); the "
             "result is compared, for EVERY orbital assignment, with the "
             "expectation value obtained by applying the operators to the "
             "reference bit string (N_occ = N_virt = number of index symbols,"
             " so valid for all orbital spaces). Part B: sandwiches <Phi0|"
             "G_bra O1 [O2] G_ket|Phi0> of (de)excitation strings up to "
             "doubles (triples thorough), ip/ea-like strings and operators f,"
             " V, d(nc,na<=2) with formal matrix elements against operator "
             "application in Fock space; rule sets (incl. those of the RE "
             "partitioning) both syntactically (independent block filter) and"
             " semantically (forbidden blocks zero in the model).",
        design="4 C01",
        note="Trusted: vmc/fock.py (bit-string algebra, 150 lines), "
             "reference interpreter. Bounded: word length, names per space, "
             "part B model spaces (2,2) (thorough: up to (3,3))."),
    "C02": dict(
        text="(mp, re) x (first-order singles off/on) x energy(0..3[4]), "
             "mp_amplitude / amplitude_residual for every class present at "
             "orders 1..2[3] and several index strings, expectation_value "
             "(1- and 2-particle), overlap, norm_factor, expand_norm_factor, "
             "gen_term_orders: each request in a pristine forked interpreter, "
             "evaluated in the model spaces (2,2), (3,3) [(3,2),(2,3),(4,4)] "
             "and compared EXACTLY (formal indeterminates) with Rayleigh-"
             "Schroedinger PT carried out by explicit operator application in "
             "determinant space: off-shell step identities (formal lower-order"
             " amplitudes) which imply the on-shell statement by induction; "
             "an off-shell mismatch of an MP quantity is only reported after "
             "the comparison with the explicitly computed MP series (formal "
             "integrals and orbital energies) fails too.",
        design="4 C02",
        note="Trusted: vmc/fock.py, vmc/rspt.py, reference interpreter; "
             "documented wavefunction ansatz. Bounded: orders and model "
             "spaces in the evidence; RE residuals are compared up to a "
             "non-zero rational constant."),
    "C03": dict(
        text="variant in {pp, ip, ea, dip, dea} x every ordered pair of the "
             "two lowest classes x order 0..2 [3 for the lowest block] x "
             "subtract_gs x {isr_matrix_block, precursor_matrix_block, "
             "mvp_block_order, transpose partner}: each request in a pristine "
             "forked interpreter; the value table over ALL bra/ket index "
             "assignments is compared exactly with the power-series ISR "
             "construction in determinant space (vmc/isr.py: excitation "
             "operators on the normalised perturbed ground state built from "
             "formal amplitudes, Gram-Schmidt against ground state and lower "
             "classes, S^-1/2 by the binomial matrix series, H applied to "
             "determinants); mvp against (g_I g_J)^-1/2 sum_J M_IJ Y_J; "
             "transpose symmetry in the real model; block_order / "
             "max_ptorder_spaces for every variant and ADC order <= 8 [12].",
        design="4 C03",
        note="Trusted: vmc/fock.py, vmc/rspt.py, vmc/isr.py, reference "
             "interpreter. Bounded: two lowest classes, orders, model spaces "
             "(2,2)/(3,3) pp, (2,1),(2,2) ip, (1,2),(2,2) ea, (3,1) dip, "
             "(1,3) dea [one size up]; MP partitioning."),
    "C04": dict(
        text="variant in {pp, ip, ea, dip, dea} x (mp | re, singles) x every "
             "ordered pair of the two lowest classes x order 0..2 [3]: "
             "overlap_isr evaluated with FORMAL ground-state amplitudes over "
             "all index assignments must be the antisymmetrised delta at "
             "order 0 for equal classes and the zero polynomial otherwise; "
             "overlap_precursor(I,J) = overlap_precursor(J,I) in the real "
             "model; expand_S_taylor against the Taylor coefficients of "
             "(1+x)^-1/2; validate_space / _generate_lower_spaces against a "
             "direct recomputation.",
        design="4 C04",
        note="Trusted: reference interpreter, closed-form oracle. Bounded: "
             "two lowest classes (third class at order <= 1 in the thorough "
             "tier), orders, model spaces."),
    "C05": dict(
        text="Properties for every variant (and mixed left/right pairs) x "
             "blocks of the two lowest classes x order 0..2 x operator "
             "strings (expectation values k = 1, 2; transition moments: "
             "default string and every (nc, na) with nc+na <= 3 [4], incl. a "
             "string with the wrong particle balance) x subtract_gs x lr_isr: "
             "expec_block_contribution and trans_moment_space compared "
             "exactly with X_I <I~|D - D0|J~> Y_J resp. X_I <I~|D|Psi0> over "
             "the explicit intermediate states of vmc/isr.py with the "
             "documented 1/sqrt(n_occ! n_virt!) normalisation; "
             "expectation_value / trans_moment against the sum of the parts "
             "an independent block/order enumeration prescribes.",
        design="4 C05",
        note="Trusted: as C03. Bounded: orders <= 2, two lowest classes, "
             "model spaces as C03."),
})

CHECKS.update({
    "C12": dict(
        text="All 25 registered intermediates x {once, fully expanded} x "
             "index tuples {default, every transposition of same-space "
             "names, renamed, numbered, repeated pair}, each request in a "
             "pristine forked interpreter: MP t-amplitudes against "
             "determinant-space RSPT (once expanded: off-shell step identity "
             "with formal lower amplitudes; fully expanded: the explicitly "
             "computed MP series), densities against the order-n coefficient "
             "of <Psi|a+a|Psi>/<Psi|Psi>, RE residuals against the projected "
             "RSPT equation of the RE partitioning, t2eri_1..7 / t2sq against "
             "the contraction table typed from the adcc documentation, "
             "t2eri_A/B against the libadc formulas on those tables; every "
             "permutation reported by tensor_symmetry is verified on the "
             "value table of the definition.",
        design="4 C12, 8.2",
        note="Trusted: vmc/fock.py, vmc/rspt.py, reference interpreter, the "
             "re-typed einsum table. Bounded: models (2,2) (formal orbital "
             "energies), (3,3)/(4,4) with ONE generic rational point of "
             "orbital energies for on-shell comparisons (integrals formal); "
             "fully expanded t2_3 in (3,3) only in the thorough tier. "
             "Vanishing spin blocks are decided in C15."),
})

CHECKS.update({
    "C11": dict(
        text="Bounded-exhaustive exploration of the real expand_intermediates "
             "/ reduce_expr / factor_intermediates entry points: every "
             "registered intermediate at permuted, renamed and repeated "
             "index tuples x remainders, products of two intermediates over "
             "index patterns, perturbed definitions (mixed prefactors, "
             "incomplete variants), the documented derivation pipelines "
             "(E(2), E(3), rho(2), secular-matrix blocks) and first-order RE "
             "residuals, x name / type / max_order requests. Every output is "
             "compared with its input as an exact rational function in a "
             "model where each intermediate tensor takes the value of its "
             "registered definition (tables built on orbital numbers).",
        design="4 C11, 8.2",
        note="Trusted: ring/model/evalexpr and vmc/c11_model.py, which reads "
             "only tensor() and expand_itmd() at the default indices (the "
             "definitions themselves are C12's subject). Bounded: (2,2) spin "
             "orbitals (the thorough tier enumerates the larger input "
             "lists with the quick tier's per-input request lists), <=2 intermediates per term, third order expansion and "
             "once-expanded factoring only; completeness of factorisation is "
             "not checked; 240 s per-operation timeout."),
    "C14": dict(
        text="Every expression of a grammar (1-3 occurrences of the removed "
             "tensor in every block of 20+ tensor families: every class, "
             "bra-ket 0/+-1, ADC amplitudes, spin/general blocks; all index "
             "patterns, exponents, Einstein and explicit targets; two-term "
             "sums) is run through the real remove_tensor and derivative. "
             "Decided exactly: the re-contraction with the documented weights "
             "(1/|G0|, x2 off-diagonal bra-ket, 1/sqrt|G0| for X/Y) must "
             "reproduce the value table of the input as a polynomial "
             "identity in formal tensor entries; the block expression must "
             "be (anti)symmetric under the removed block's symmetry; "
             "sum_b eta_b*D_b must equal the eps-coefficient of E(N+eps*eta) "
             "built independently by the product rule.",
        design="4 C14, 8.2",
        note="Trusted: evalexpr/ring/model, the sympy_objects constructors "
             "and the Expr constructor. Bounded: <=3 occurrences, <=2 "
             "remainder tensors, <=2 terms, <=4 distinct index names per "
             "space, exponent <=2 (3 thorough), rank (3,3) only thorough. "
             "Several-block keys are matched existentially over the block "
             "order; the derivative block multiplies the canonical tensor. "
             "Two known findings (see known_findings.json)."),
    "C15": dict(
        text="For every term of a grammar (1-3 objects from ERI, Coulomb "
             "integrals, t-amplitudes, deltas, symbolic denominators, orbital "
             "energies, registered-intermediate tensors and unknown tensors; "
             "every index pattern; Einstein/explicit/extended/empty target "
             "sets), chains of three connected objects with every explicit "
             "target set of size <=2, and two/three-term sums, EVERY spin "
             "string of the target indices is passed to integrate_spin and "
             "transform_to_spatial_orbitals (restricted on/off, expand_eri "
             "on/off); the value table of the result is compared exactly "
             "with the input evaluated on spin orbitals of the requested "
             "spins with tensors that vanish outside spin-conserving blocks "
             "(restricted: entry = [allowed block] * W(spatial labels)); "
             "every block not reported by Obj.allowed_spin_blocks, "
             "RegisteredIntermediate.allowed_spin_blocks or "
             "allowed_spin_blocks(expr) is shown to vanish identically.",
        design="4 C15, 8.2",
        note="Trusted: ring/evalexpr/model, the SpinModel rules in c15.py, "
             "the registered intermediate definitions. Bounded (quick): <=3 "
             "objects, <=8/6 slots, <=3 index symbols per space, <=4 target "
             "indices; tensors unknown to adcgen are general; t4_2's block "
             "table is not evaluated."),
    "C19": dict(
        text="Every history word over a 14-call alphabet (derivations filling "
             "member caches, explicit / generic index requests) up to depth 2 "
             "(thorough 3), each followed by each of 26 probe requests, each "
             "(word, probe) executed in its own pristine forked interpreter; "
             "the same probes for all words of depth <=1 under PYTHONHASHSEED "
             "0..3 (0..15) and under 4 tensor-name configurations (scratch "
             "copy of the imported package) in fresh interpreters. Every "
             "result is compared with the history-free default result by "
             "exact value (formal tensor entries; operator-valued results "
             "via an independent determinant algebra), by text after "
             "substitute_contracted(), and by monitors that psi / "
             "norm_factor / get_generic_indices never reuse contracted or "
             "handed-out indices; norm_factor(n) is additionally compared "
             "with the series 1/(1+sum S_k) built from separately requested "
             "overlaps (factors of ONE result must not share indices).",
        design="4 C19, 8.2",
        note="Trusted: evalexpr/ring/model, os.fork semantics. The oracle is "
             "relative (same request in a pristine default process): "
             "history-independent errors belong to C01-C18. Bounded: listed "
             "alphabet, depth, seeds 0..15, 4 configurations. Two known "
             "findings (see known_findings.json)."),
})

NOT_YET = {}


def main():
    props = [json.loads(l) for l in open(os.path.join(HERE, "properties.jsonl"))]
    checks = []
    for p in props:
        c = CHECKS.get(p["id"])
        if c is None:
            continue
        pid = p["id"]
        checks.append({
            "property_id": pid,
            "quick_cmd": f"/venv/bin/python run_check.py {pid} --tier quick",
            "thorough_cmd": f"/venv/bin/python run_check.py {pid} --tier thorough",
            "evidence_file": f"/verif/evidence/{pid}.json",
            "replay_cmd_template": f"/venv/bin/python run_check.py {pid} --replay {{path}}",
            "engine": "vmc",
            "level_claimed": {"category": "model_checking", "text": c["text"],
                              "design_ref": c["design"]},
            "level_note": c["note"],
            "technique": c.get("technique", TECH),
        })
    na = [{"property_id": p["id"],
           "reason": NOT_YET.get(p["id"], "check not built yet in this round "
                                 "(planned, see DESIGN.md section 4)")}
          for p in props if p["id"] not in CHECKS]
    man = {
        "version": 1,
        "setup_cmd": "/venv/bin/python -m compileall -q vmc run_check.py",
        "hooks": {
            "guard": "ADCGEN_VERIF",
            "enable": "no hooks are compiled in: adcgen is installed editable "
                      "from /repo, every check imports /repo's working tree",
            "baseline_off_cmd": "cd /repo && /venv/bin/python -m pytest -ra -q "
                                "-p no:cacheprovider --timeout=900 "
                                "--continue-on-collection-errors",
            "source_commits": [],
            "add_only": True,
        },
        "engines": [{
            "name": "vmc",
            "path": "/verif/vmc",
            "serves_properties": [c["property_id"] for c in checks],
            "kind_free_text": "hand-written bounded-exhaustive explorer for "
                              "Python (multiprocessing, canonical state keys, "
                              "BFS for history properties) + exact polynomial "
                              "reference semantics + determinant-space engine",
        }],
        "checks": checks,
        "not_applicable": na,
        "notes": "All checks: cwd=/verif, interpreter /venv/bin/python, "
                 "PYTHONHASHSEED owned (VERIF_SEED mod 16). Known findings: "
                 "/verif/known_findings.json. Seeded property-breaking changes "
                 "and which check catches them: /verif/seeded, DESIGN.md section 8.4. Workers run under an address-space limit (VERIF_MEM_GB, default 10): cases exceeding it or their time limit are reported as caps in the evidence.",
    }
    with open(os.path.join(HERE, "MANIFEST.json"), "w") as f:
        json.dump(man, f, indent=1)
    try:
        import jsonschema
        schema = json.load(open("/root/.vp/MANIFEST.schema.json"))
        jsonschema.validate(man, schema)
        print("MANIFEST.json valid;", len(checks), "checks,", len(na), "not_applicable")
    except ImportError:
        print("MANIFEST.json written (jsonschema not importable here)")


if __name__ == "__main__":
    main()
