#!/bin/bash
# process_seeds.sh <suffix> <P1> <P2> ... : for every property id, confirm the seeded change
# left by a sub-agent in /tmp/seed<wave>_<Pid> (wave digit given by suffix letter: b->2, c->3)
# and run the property's check against it; results go to seeded/RESULTS.txt
suffix=$1; shift
case $suffix in b) wave=2;; c) wave=3;; d) wave=4;; *) wave=2;; esac
cd /verif
for p in "$@"; do
  wt=/tmp/seed${wave}_$p
  [ -d $wt/seed ] || { echo "$p: no seed dir in $wt"; continue; }
  tools/confirm_seed.sh ${p}_$suffix $wt
  [ -d seeded/${p}_$suffix ] && tools/run_all_seeds.sh quick ${p}_$suffix
done
