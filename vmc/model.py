"""Orbital models and tensor valuations of the reference semantics.

Nothing in this file imports adcgen's algorithms: only the *classes* of the
sympy objects are inspected (by the evaluator), and the declared symmetry of an
object is applied here on **orbital numbers**, never on index names.
"""
import itertools
from . import ring
from .ring import Poly, ZERO, ONE


class Space:
    """N_o occupied and N_v virtual orbitals.  If `spin` is True every
    (spatial) orbital exists as alpha and beta spin orbital and indices with a
    spin label only range over the orbitals of that spin."""

    def __init__(self, n_occ, n_virt, spin=False):
        self.n_occ, self.n_virt, self.spin = n_occ, n_virt, spin
        self.orb_space = []   # 'o' / 'v'
        self.orb_spin = []    # '' / 'a' / 'b'
        self.orb_spatial = []  # spatial label (int)
        self.label = []
        spins = ("a", "b") if spin else ("",)
        k = 0
        for sp, n in (("o", n_occ), ("v", n_virt)):
            for x in range(n):
                for s in spins:
                    self.orb_space.append(sp)
                    self.orb_spin.append(s)
                    self.orb_spatial.append(k)
                    self.label.append(f"{sp}{x}{s}")
                k += 1
        self.n = len(self.orb_space)
        self.occ = [o for o in range(self.n) if self.orb_space[o] == "o"]
        self.virt = [o for o in range(self.n) if self.orb_space[o] == "v"]
        self._ranges = {}

    def range(self, space, spin=""):
        """orbitals an index of (space, spin) runs over; space in
        occ/virt/general (or o/v/g)"""
        key = (space[0], spin)
        r = self._ranges.get(key)
        if r is None:
            r = [o for o in range(self.n)
                 if (key[0] == "g" or self.orb_space[o] == key[0])
                 and (not spin or not self.spin or self.orb_spin[o] == spin)]
            self._ranges[key] = r
        return r

    def idx_range(self, idx):
        return self.range(idx.space, idx.spin)

    def __repr__(self):
        return f"Space(o={self.n_occ},v={self.n_virt},spin={self.spin})"


def sort_sign(t):
    """(sign, sorted tuple) ; sign 0 if an entry is repeated"""
    t = list(t)
    s = 1
    n = len(t)
    for i in range(n):
        for j in range(n - 1 - i):
            if t[j] > t[j + 1]:
                t[j], t[j + 1] = t[j + 1], t[j]
                s = -s
    for i in range(n - 1):
        if t[i] == t[i + 1]:
            return 0, tuple(t)
    return s, tuple(t)


class Model:
    """Valuation of tensor objects.

    kinds: 'anti' (AntiSymmetricTensor), 'amp' (Amplitude), 'sym'
    (SymmetricTensor), 'nonsym' (NonSymmetricTensor).

    defs: name -> callable(model, kind, name, bks, upper, lower) -> Poly | None
          (None = fall through to the free valuation).
    bks_override: name -> bra-ket symmetry to use instead of the object's own.
    real: if True, 'Xcc' is identified with 'X' for amplitude-like names given
          in `cc_names`.
    """

    def __init__(self, space, defs=None, bks_override=None, rename=None):
        self.space = space
        self.defs = dict(defs or {})
        self.bks_override = dict(bks_override or {})
        self.rename = dict(rename or {})
        self._cache = {}

    # -- free valuations ------------------------------------------------
    def free(self, kind, name, bks, u, l):
        name = self.rename.get(name, name)
        bks = self.bks_override.get(name, bks)
        if kind == "nonsym":
            return ring.var(f"{name}[{','.join(map(str, u))}]")
        if kind == "sym":
            u = tuple(sorted(u))
            l = tuple(sorted(l))
            sign = 1
        else:
            su, u = sort_sign(u)
            sl, l = sort_sign(l)
            sign = su * sl
            if sign == 0:
                return ZERO
        if bks and len(u) == len(l):
            if l < u:
                u, l = l, u
                sign *= bks
            elif l == u and bks == -1:
                return ZERO
        v = ring.var(f"{name}[{','.join(map(str, u))}|{','.join(map(str, l))}]")
        return v if sign == 1 else -v

    def value(self, kind, name, bks, u, l):
        key = (kind, name, bks, u, l)
        v = self._cache.get(key)
        if v is None:
            h = self.defs.get(name)
            if h is not None:
                v = h(self, kind, name, bks, u, l)
            if v is None:
                v = self.free(kind, name, bks, u, l)
            self._cache[key] = v
        return v


# ----------------------------------------------------------------- handlers
def orb_energy(model, kind, name, bks, u, l):
    """e_p  (NonSymmetricTensor 'e' with one index).  Spin orbitals of the
    same spatial orbital have the same energy only in restricted models; here
    one energy per orbital."""
    assert len(u) == 1 and not l
    return ring.var(f"e{u[0]}")


def fock_canonical(model, kind, name, bks, u, l):
    """f_pq = e_p delta_pq"""
    assert len(u) == 1 and len(l) == 1
    return ring.var(f"e{u[0]}") if u[0] == l[0] else ZERO


def fock_block_diagonal(model, kind, name, bks, u, l):
    sp = model.space.orb_space
    if sp[u[0]] != sp[l[0]]:
        return ZERO
    return None


def symbolic_denominator(model, kind, name, bks, u, l):
    """D^{ab..}_{ij..} = 1/(e_a + e_b + .. - e_i - e_j - ..): SymmetricTensor
    with virtual indices contributing + and occupied - (regardless of the
    position, as adcgen sorts by space with bra-ket antisymmetry)."""
    p = Poly()
    for o in u:
        p.iadd(ring.var(f"e{o}"))
    for o in l:
        p.iadd(ring.var(f"e{o}"), -1)
    if not p.t:
        raise ZeroDivisionError("vanishing symbolic denominator")
    return ring.inverse(p)
