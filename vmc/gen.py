"""Bounded-exhaustive generators: shapes, index patterns, terms.

All generators are deterministic and yield the simplest cases first.
A *term descriptor* is JSON-able:

    (pref, ((shape_id, exponent, (idx names per slot...)), ...))

idx names are strings like 'i', 'a', 'p', 'i_a' (alpha spin), 'i2'.
"""
import itertools
from fractions import Fraction

from sympy import Rational, S, sqrt, Symbol, Pow, Mul

from adcgen.indices import get_symbols
from adcgen.sympy_objects import (
    AntiSymmetricTensor, SymmetricTensor, Amplitude, NonSymmetricTensor,
    KroneckerDelta,
)

POOL = {"o": "ijklmn", "v": "abcdef", "g": "pqrstu"}

# shape: (kind, name, n_upper, n_lower, bks, spaces)   spaces: one letter per
# slot (upper then lower; for 'nonsym' all slots; for 'delta' the two indices)
SHAPES = {
    # ERI like, bra-ket symmetric and plain
    "V_oovv": ("anti", "V", 2, 2, 1, "oovv"),
    "V_ovov": ("anti", "V", 2, 2, 1, "ovov"),
    "V_oooo": ("anti", "V", 2, 2, 1, "oooo"),
    "V_ooov": ("anti", "V", 2, 2, 1, "ooov"),
    "V_ovvv": ("anti", "V", 2, 2, 1, "ovvv"),
    "V_vvvv": ("anti", "V", 2, 2, 1, "vvvv"),
    "W_oovv": ("anti", "W", 2, 2, 0, "oovv"),
    "W_ovov": ("anti", "W", 2, 2, 0, "ovov"),
    "W_oooo": ("anti", "W", 2, 2, 0, "oooo"),
    "A_oovv": ("anti", "A", 2, 2, -1, "oovv"),
    "A_oooo": ("anti", "A", 2, 2, -1, "oooo"),
    # one particle
    "f_oo": ("anti", "f", 1, 1, 1, "oo"),
    "f_ov": ("anti", "f", 1, 1, 1, "ov"),
    "f_vv": ("anti", "f", 1, 1, 1, "vv"),
    "d_oo": ("anti", "d", 1, 1, 0, "oo"),
    "d_ov": ("anti", "d", 1, 1, 0, "ov"),
    "d_vo": ("anti", "d", 1, 1, 0, "vo"),
    "d_vv": ("anti", "d", 1, 1, 0, "vv"),
    "d_gg": ("anti", "d", 1, 1, 0, "gg"),
    "a_oo": ("anti", "a", 1, 1, -1, "oo"),
    "a_ov": ("anti", "a", 1, 1, -1, "ov"),
    # amplitudes
    "t1": ("amp", "t1", 1, 1, 0, "vo"),
    "t2": ("amp", "t2", 2, 2, 0, "vvoo"),
    "t2cc": ("amp", "t2cc", 2, 2, 0, "vvoo"),
    "X1": ("amp", "X", 1, 1, 0, "vo"),
    "X2": ("amp", "X", 2, 2, 0, "vvoo"),
    "Y1": ("amp", "Y", 1, 1, 0, "vo"),
    "Y2": ("amp", "Y", 2, 2, 0, "vvoo"),
    "Xip": ("amp", "X", 1, 2, 0, "voo"),
    # symmetric
    "v_oovv": ("sym", "v", 2, 2, 1, "oovv"),
    "v_ovov": ("sym", "v", 2, 2, 1, "ovov"),
    "s_oovv": ("sym", "s", 2, 2, 0, "oovv"),
    "D_oovv": ("sym", "D", 2, 2, -1, "oovv"),
    "D_ov": ("sym", "D", 1, 1, -1, "ov"),
    # nonsymmetric
    "e_o": ("nonsym", "e", 1, 0, 0, "o"),
    "e_v": ("nonsym", "e", 1, 0, 0, "v"),
    "x_o": ("nonsym", "x", 1, 0, 0, "o"),
    "x_ov": ("nonsym", "x", 2, 0, 0, "ov"),
    "x_oo": ("nonsym", "x", 2, 0, 0, "oo"),
    "x_vv": ("nonsym", "x", 2, 0, 0, "vv"),
    "y_oovv": ("nonsym", "y", 4, 0, 0, "oovv"),
    "y_ovv": ("nonsym", "y", 3, 0, 0, "ovv"),
    # deltas
    "k_oo": ("delta", "", 1, 1, 0, "oo"),
    "k_vv": ("delta", "", 1, 1, 0, "vv"),
    "k_go": ("delta", "", 1, 1, 0, "go"),
    "k_gv": ("delta", "", 1, 1, 0, "gv"),
    "k_gg": ("delta", "", 1, 1, 0, "gg"),
}


def parse_idx(name):
    """'i' -> ('i', ''), 'i_a' -> ('i', 'a'), 'i2_b' -> ('i2', 'b')"""
    if "_" in name:
        n, s = name.split("_")
        return n, s
    return name, ""


def sym(name):
    n, s = parse_idx(name)
    return get_symbols([n], [s] if s else None)[0] if not s else \
        get_symbols([n], s)[0]


def syms(names):
    return tuple(sym(n) for n in names)


def build_obj(shape_id, names, exponent=1):
    kind, name, nu, nl, bks, spaces = SHAPES[shape_id]
    idx = syms(names)
    if kind == "delta":
        o = KroneckerDelta(idx[0], idx[1])
    elif kind == "nonsym":
        o = NonSymmetricTensor(name, idx)
    elif kind == "anti":
        o = AntiSymmetricTensor(name, idx[:nu], idx[nu:], bks)
    elif kind == "amp":
        o = Amplitude(name, idx[:nu], idx[nu:], bks)
    elif kind == "sym":
        o = SymmetricTensor(name, idx[:nu], idx[nu:], bks)
    else:
        raise ValueError(kind)
    if exponent != 1:
        o = Pow(o, exponent)
    return o


PREFS = {
    "1": S.One, "-1": S.NegativeOne, "2": S(2), "1/2": Rational(1, 2),
    "-1/4": Rational(-1, 4), "1/3": Rational(1, 3), "sqrt2": sqrt(2),
    "sqrt6/2": sqrt(6) / 2, "c": Symbol("c"), "-3/2": Rational(-3, 2),
    "1/4": Rational(1, 4), "-1/2": Rational(-1, 2), "-2": S(-2),
}


def build_term(desc):
    """sympy product for a term descriptor"""
    pref, objs = desc
    res = PREFS[pref]
    for shape_id, ex, names in objs:
        res = res * build_obj(shape_id, names, ex)
    return res


def rgs(n):
    """restricted growth strings of length n (all set partitions)"""
    if n == 0:
        yield ()
        return

    def rec(prefix, mx):
        if len(prefix) == n:
            yield tuple(prefix)
            return
        for v in range(mx + 2):
            yield from rec(prefix + [v], max(mx, v))
    yield from rec([0], 0)


def index_patterns(slot_spaces, pools=None, max_distinct=None):
    """all assignments of index names to slots up to renaming within a space:
    slots of the same space get names by restricted growth strings over the
    pool of that space.  Yields tuples of names."""
    pools = pools or POOL
    by_space = {}
    for k, sp in enumerate(slot_spaces):
        by_space.setdefault(sp, []).append(k)
    spaces = sorted(by_space)
    choices = []
    for sp in spaces:
        n = len(by_space[sp])
        lst = [r for r in rgs(n) if max(r) < len(pools[sp])
               and (max_distinct is None or max(r) < max_distinct)]
        choices.append(lst)
    for combo in itertools.product(*choices):
        names = [None] * len(slot_spaces)
        for sp, r in zip(spaces, combo):
            for k, v in zip(by_space[sp], r):
                names[k] = pools[sp][v]
        yield tuple(names)


def slot_spaces(shape_ids):
    out = []
    for s in shape_ids:
        out.extend(SHAPES[s][5])
    return out


def split_names(shape_ids, names):
    out, k = [], 0
    for s in shape_ids:
        n = len(SHAPES[s][5])
        out.append(tuple(names[k:k + n]))
        k += n
    return out


def terms(shape_ids, pref="1", exponents=None, max_slots=None):
    """all term descriptors for the given multiset of shapes (every index
    pattern).  Terms that are zero on construction are still yielded (the
    caller counts and drops them)."""
    exponents = exponents or [1] * len(shape_ids)
    sp = slot_spaces(shape_ids)
    if max_slots is not None and len(sp) > max_slots:
        return
    for names in index_patterns(sp):
        parts = split_names(shape_ids, names)
        yield (pref, tuple((s, e, p) for s, e, p in
                           zip(shape_ids, exponents, parts)))


def term_indices(desc):
    """names in order of first occurrence, with multiplicity counter"""
    count = {}
    for shape_id, ex, names in desc[1]:
        for n in names:
            count[n] = count.get(n, 0) + ex
    return count


def einstein_target(desc):
    """independent recount: indices that occur exactly once (counting
    exponents) in the term, in canonical (space, name) order"""
    cnt = term_indices(desc)
    return tuple(sorted((n for n, c in cnt.items() if c == 1), key=name_key))


def name_key(n):
    nm, sp = parse_idx(n)
    space = "o" if nm[0] in "ijklmno" else "v" if nm[0] in "abcdefgh" else "g"
    return (space, sp, int(nm[1:]) if nm[1:] else 0, nm[0])


def space_of(n):
    nm = parse_idx(n)[0]
    return "o" if nm[0] in "ijklmno" else "v" if nm[0] in "abcdefgh" else "g"


def canonical_key(desc, target):
    """key of a term descriptor up to renaming of non-target indices"""
    ren = {}
    cnt = {}
    out = []
    tset = set(target)
    for shape_id, ex, names in desc[1]:
        nn = []
        for n in names:
            if n in tset:
                nn.append("T" + n)
            else:
                if n not in ren:
                    sp = space_of(n) + parse_idx(n)[1]
                    cnt[sp] = cnt.get(sp, 0) + 1
                    ren[n] = f"{sp}{cnt[sp]}"
                nn.append(ren[n])
        out.append((shape_id, ex, tuple(nn)))
    return (desc[0], tuple(out))


def sympy_index_counts(term):
    """independent recount of index multiplicities in a constructed sympy
    product (exponents counted by absolute value, as documented for
    Term.idx): {Index: count}"""
    from adcgen.indices import Index
    cnt = {}

    def walk(o, mult):
        if isinstance(o, Index):
            cnt[o] = cnt.get(o, 0) + mult
        elif isinstance(o, Pow) and o.args[1].is_Integer:
            walk(o.args[0], mult * abs(int(o.args[1])))
        elif isinstance(o, Pow) and o.args[0].is_Number:
            return
        else:
            for a in o.args:
                walk(a, mult)
    walk(term, 1)
    return cnt


def sympy_einstein_target(term):
    """names (as produced by str(Index)) of the indices occurring once"""
    cnt = sympy_index_counts(term)
    return tuple(sorted((str(s) for s, c in cnt.items() if c == 1),
                        key=name_key))
