"""Model of C11: every registered intermediate tensor is valued by its
registered definition.

    e_p      formal orbital energies
    f_pq     e_p delta_pq   (canonical model)  or  block diagonal formal
    V        formal real antisymmetrised integrals (bra-ket symmetric)
    D        1/(sum e_upper - sum e_lower)
    t1, t2, t3 (amplitudes), p2, p3 (densities), t2eri1..7, t2eriA/B, t2sq
             table obtained by evaluating the *registered definition at its
             default indices* once with the reference interpreter.

What is read from adcgen: `RegisteredIntermediate.tensor()` at the default
indices (which tensor object denotes the intermediate: class, name, position
of every default index) and `expand_itmd()` at the default indices (the
registered definition).  The association tensor -> definition for arbitrary
index tuples is made HERE, on orbital numbers (positions, spaces, permutation
parity) and never goes through Obj.longname / expand_itmd(indices=...) /
factor_itmd, which are the mechanisms under test.
"""
from sympy import Mul, S

from adcgen.indices import get_symbols
from adcgen.intermediates import Intermediates

from . import ring
from .ring import Poly, ZERO
from .model import (Model, Space, orb_energy, fock_canonical,
                    fock_block_diagonal, symbolic_denominator, sort_sign)
from .evalexpr import evaluate, kind_of

# order-3 quantities: the fully expanded form is too expensive to build for
# every process; their table is the once-expanded registered definition
# evaluated with the lower-order tables (the check compares it with the fully
# expanded one where that is feasible)
ONCE_EXPANDED_DEFS = ("t1_3", "t2_3", "p0_3_oo", "p0_3_ov", "p0_3_vv")
NO_TABLE = ("t2_1_re_residual", "t1_2_re_residual", "t2_2_re_residual")


class Layout:
    """which tensor object denotes intermediate `name` (read off
    itmd.tensor() at the default indices)"""

    def __init__(self, name, itmd):
        self.name = name
        default = get_symbols(itmd.default_idx)
        t = itmd.tensor(return_sympy=True)
        sign = 1
        if isinstance(t, Mul):
            c, rest = t.as_coeff_Mul()
            assert c in (S.One, S.NegativeOne), t
            sign, t = int(c), rest
        self.sign = sign
        self.kind = kind_of(t)
        assert self.kind is not None, t
        self.tname = t.name
        if self.kind == "nonsym":
            upper, lower = tuple(t.idx), ()
            self.bks = 0
        else:
            upper, lower = tuple(t.upper), tuple(t.lower)
            self.bks = int(t.bra_ket_sym)
        assert sorted(upper + lower, key=str) == sorted(default, key=str)
        self.n_upper, self.n_lower = len(upper), len(lower)
        self.sp_upper = tuple(s.space[0] for s in upper)
        self.sp_lower = tuple(s.space[0] for s in lower)
        pos = {s: k for k, s in enumerate(upper + lower)}
        # default index number d sits at slot slot_of_default[d]
        self.slot_of_default = tuple(pos[s] for s in default)
        self.default = default

    def arrange(self, sp, u, l):
        """(sign, orbitals in the order of the default indices) for the stored
        orbital tuples u, l; None if the spaces do not fit this intermediate"""
        if self.kind == "nonsym":
            if tuple(sp[o] for o in u) != self.sp_upper:
                return None
            slots = u
            sign = 1
        else:
            r = _fit(sp, u, l, self.sp_upper, self.sp_lower,
                     self.kind in ("anti", "amp"))
            if r is None and len(u) == len(l) and \
                    (self.bks or self.kind == "amp"):
                # bra-ket partner: declared symmetry, or (amplitudes) the real
                # orbital basis in which t^{ab}_{ij} = t^{ij}_{ab}
                r = _fit(sp, l, u, self.sp_upper, self.sp_lower,
                         self.kind in ("anti", "amp"))
                if r is not None and self.bks:
                    r = (r[0] * self.bks, r[1])
            if r is None:
                return None
            sign, slots = r
        return sign * self.sign, tuple(slots[k] for k in self.slot_of_default)


def _match(sp, orbs, pattern, antisym):
    """permute orbs so that their spaces follow pattern; (sign, tuple)"""
    if sorted(sp[o] for o in orbs) != sorted(pattern):
        return None
    if tuple(sp[o] for o in orbs) == tuple(pattern):
        return 1, tuple(orbs)
    used = [False] * len(orbs)
    perm = []
    for want in pattern:
        for k, o in enumerate(orbs):
            if not used[k] and sp[o] == want:
                used[k] = True
                perm.append(k)
                break
    sign, _ = sort_sign(perm)
    if not antisym:
        sign = 1
    return sign, tuple(orbs[k] for k in perm)


def _fit(sp, u, l, pu, pl, antisym):
    a = _match(sp, u, pu, antisym)
    b = _match(sp, l, pl, antisym)
    if a is None or b is None:
        return None
    return a[0] * b[0], a[1] + b[1]


class DefinedModel(Model):
    """Model whose intermediate tensors take the value of their registered
    definition.  fock: 'canonical' | 'block'."""

    def __init__(self, n_occ, n_virt, fock="canonical", extra_defs=None):
        defs = {"e": orb_energy, "D": symbolic_denominator,
                "f": fock_canonical if fock == "canonical"
                else fock_block_diagonal}
        super().__init__(Space(n_occ, n_virt), defs=defs,
                         bks_override={"V": 1, "f": 1})
        self.available = Intermediates().available
        self.layouts = {}
        for name, itmd in self.available.items():
            if name in NO_TABLE:
                continue
            lay = Layout(name, itmd)
            self.layouts.setdefault(lay.tname, []).append(lay)
        for tname in self.layouts:
            self.defs[tname] = self._itmd_value
        self.defs.update(extra_defs or {})
        self.tables = {}
        self.in_progress = set()

    # -- definitions ------------------------------------------------------
    def definition(self, name, fully=None):
        """sympy expression of the registered definition at default indices"""
        if fully is None:
            fully = name not in ONCE_EXPANDED_DEFS
        ex = self.available[name].expand_itmd(fully_expand=fully)
        return ex.sympy.expand()

    def table(self, name):
        tab = self.tables.get(name)
        if tab is None:
            assert name not in self.in_progress, f"cyclic definition {name}"
            self.in_progress.add(name)
            lay = [x for v in self.layouts.values() for x in v
                   if x.name == name][0]
            tab = evaluate(self.definition(name), lay.default, self).data
            self.in_progress.discard(name)
            self.tables[name] = tab
        return tab

    def _itmd_value(self, model, kind, name, bks, u, l):
        sp = self.space.orb_space
        for lay in self.layouts.get(name, ()):
            if lay.kind != kind and not (
                    {lay.kind, kind} <= {"anti", "amp"}):
                continue
            if kind == "nonsym":
                if len(u) != lay.n_upper:
                    continue
            elif (len(u), len(l)) not in ((lay.n_upper, lay.n_lower),
                                          (lay.n_lower, lay.n_upper)):
                continue
            r = lay.arrange(sp, u, l)
            if r is None:
                continue
            sign, key = r
            v = self.table(lay.name).get(key, ZERO)
            return v if sign == 1 else -v
        return None   # not a registered intermediate: free tensor

    def is_registered(self, kind, name, u_spaces, l_spaces):
        """does a tensor with these slot spaces denote an intermediate?"""
        sp = {i: s for i, s in enumerate(u_spaces + l_spaces)}
        u = tuple(range(len(u_spaces)))
        l = tuple(range(len(u_spaces), len(u_spaces) + len(l_spaces)))
        for lay in self.layouts.get(name, ()):
            if kind == "nonsym":
                if len(u) != lay.n_upper:
                    continue
            elif (len(u), len(l)) not in ((lay.n_upper, lay.n_lower),
                                          (lay.n_lower, lay.n_upper)):
                continue
            if lay.arrange(sp, u, l) is not None:
                return lay.name
        return None


def declared_symmetry_defects(model, name):
    """entries of the definition table that contradict the declared symmetry
    of the tensor object (antisymmetry within upper / lower, bra-ket)"""
    lay = [x for v in model.layouts.values() for x in v if x.name == name][0]
    tab = model.table(name)
    if lay.kind == "nonsym":
        return []
    bad = []
    nd = len(lay.default)
    slot = lay.slot_of_default
    inv = {s: d for d, s in enumerate(slot)}   # slot -> default number

    def swapped(key, s1, s2):
        k = list(key)
        k[inv[s1]], k[inv[s2]] = k[inv[s2]], k[inv[s1]]
        return tuple(k)
    sp = model.space.orb_space
    groups = [range(0, lay.n_upper),
              range(lay.n_upper, lay.n_upper + lay.n_lower)]
    anti = -1 if lay.kind in ("anti", "amp") else 1
    import itertools
    ranges = [model.space.range(s.space) for s in lay.default]
    for key in itertools.product(*ranges):
        v = tab.get(key, ZERO)
        for g in groups:
            for s1, s2 in itertools.combinations(g, 2):
                k2 = swapped(key, s1, s2)
                if any(sp[k2[d]] != sp[key[d]] for d in range(nd)):
                    continue
                w = tab.get(k2, ZERO)
                if not ring.equal(v, w * anti):
                    bad.append((key, k2))
        if lay.bks and lay.n_upper == lay.n_lower:
            k2 = list(key)
            for s in range(lay.n_upper):
                a, b = inv[s], inv[s + lay.n_upper]
                k2[a], k2[b] = key[b], key[a]
            k2 = tuple(k2)
            if all(sp[k2[d]] == sp[key[d]] for d in range(nd)):
                w = tab.get(k2, ZERO)
                if not ring.equal(v, w * lay.bks):
                    bad.append((key, k2))
    return bad
