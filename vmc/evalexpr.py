"""Reference interpreter: sympy expression -> value table.

The *meaning* of an expression E with target tuple T in model M is

    tau |-> sum_terms prefactor * sum_{sigma: contracted(term)->orbitals}
                 prod_objects value_M(object, tau u sigma)

where contracted(term) = every index of the term that is not in T.

The interpreter walks the raw sympy tree.  It uses only the classes of
adcgen.sympy_objects / adcgen.indices to recognise nodes; nothing from
expr_container / simplify / symmetry.
"""
import itertools
from fractions import Fraction

from sympy import Add, Mul, Pow, Symbol, S, Rational, Integer, Float, Number
from sympy.core.numbers import NumberSymbol, ImaginaryUnit

from adcgen.indices import Index
from adcgen.sympy_objects import (
    AntiSymmetricTensor, SymmetricTensor, Amplitude, NonSymmetricTensor,
    KroneckerDelta,
)

from . import ring
from .ring import Poly, ZERO, ONE


class Unsupported(Exception):
    pass


class Table:
    """values of an expression for all assignments of `axes` (tuple of Index)"""
    __slots__ = ("axes", "data")

    def __init__(self, axes, data):
        self.axes = tuple(axes)
        self.data = data

    def nonzero(self):
        return {k: v for k, v in self.data.items() if v.t}

    def __repr__(self):
        items = list(self.nonzero().items())
        return (f"Table(axes={self.axes}, nnz={len(items)}, "
                f"first={items[:3]})")


def kind_of(o):
    if isinstance(o, Amplitude):
        return "amp"
    if isinstance(o, SymmetricTensor):
        return "sym"
    if isinstance(o, AntiSymmetricTensor):
        return "anti"
    if isinstance(o, NonSymmetricTensor):
        return "nonsym"
    return None


def number_value(o):
    """exact ring value of a sympy number (rational, sqrt-type power)"""
    if isinstance(o, (int, Fraction)):
        return ring.const(o)
    if o.is_Rational:
        p, q = int(o.p), int(o.q)
        return ring.const(p if q == 1 else Fraction(p, q))
    if isinstance(o, Float):
        return ring.const(Fraction(str(o)))
    raise Unsupported(f"number {o!r}")


def _pow_number(base, ex):
    """base**ex for rational base, rational exponent with denominator 1, 2"""
    if ex.is_Integer:
        b = Fraction(int(base.p), int(base.q))
        return ring.const(b ** int(ex))
    if ex.is_Rational and ex.q == 2:
        b = Fraction(int(base.p), int(base.q))
        if b <= 0:
            raise Unsupported(f"sqrt of non-positive {base}")
        # sqrt(p/q) = sqrt(p*q)/q
        r = ring.sqrt_atom(b.numerator * b.denominator) * \
            Fraction(1, b.denominator)
        n = int(ex.p)
        if n >= 0:
            return r ** n
        # 1/sqrt(x) = sqrt(x)/x
        inv = r * (1 / b)
        return inv ** (-n)
    raise Unsupported(f"power {base}**{ex}")


# --------------------------------------------------------------------------
# pointwise (scalar) evaluation for a complete assignment: used for bracket
# polynomials and as the slow reference path (tests of the fast path)
# --------------------------------------------------------------------------
def scalar(o, asg, model):
    if isinstance(o, Index):
        raise Unsupported("bare index")
    if o.is_Number:
        return number_value(o)
    if isinstance(o, Add):
        r = Poly()
        for a in o.args:
            r.iadd(scalar(a, asg, model))
        return r
    if isinstance(o, Mul):
        r = ONE
        for a in o.args:
            r = r * scalar(a, asg, model)
            if not r.t:
                return ZERO
        return r
    if isinstance(o, Pow):
        b, ex = o.args
        if b.is_Number:
            return _pow_number(b, ex)
        if not ex.is_Integer:
            raise Unsupported(f"exponent {ex}")
        v = scalar(b, asg, model)
        ex = int(ex)
        if ex >= 0:
            return v ** ex
        return ring.inverse(v) ** (-ex)
    if isinstance(o, KroneckerDelta):
        i, j = o.args
        return ONE if asg[i] == asg[j] else ZERO
    k = kind_of(o)
    if k == "nonsym":
        return model.value(k, o.name, 0, tuple(asg[s] for s in o.idx), ())
    if k is not None:
        return model.value(k, o.name, int(o.bra_ket_sym),
                           tuple(asg[s] for s in o.upper),
                           tuple(asg[s] for s in o.lower))
    if isinstance(o, Symbol):
        return ring.var(f"sym:{o.name}")
    raise Unsupported(f"node {type(o).__name__}: {o}")


def indices_of(o):
    return o.atoms(Index)


def _idx_sort_key(s):
    return (s.space, s.spin, s.name, s.dummy_index)


# --------------------------------------------------------------------------
# object tables
# --------------------------------------------------------------------------
def object_table(o, model, ranges):
    """(axes, data) for one factor of a term.  axes = distinct indices in
    first-occurrence order."""
    axes = []
    for s in _ordered_indices(o):
        if s not in axes:
            axes.append(s)
    axes = tuple(axes)
    # cache on the shape of the object (everything but the index identities)
    key = _shape_key(o, axes)
    cache = model.__dict__.setdefault("_tabcache", {})
    hit = cache.get(key) if key is not None else None
    if hit is not None:
        return axes, hit
    data = {}
    rng = [ranges(s) for s in axes]
    for vals in itertools.product(*rng):
        asg = dict(zip(axes, vals))
        v = scalar(o, asg, model)
        if v.t:
            data[vals] = v
    if key is not None:
        cache[key] = data
    return axes, data


def _ordered_indices(o):
    """indices of a node in a deterministic order of occurrence"""
    if isinstance(o, Index):
        return [o]
    k = kind_of(o)
    if k == "nonsym":
        return list(o.idx)
    if k is not None:
        return list(o.upper) + list(o.lower)
    if isinstance(o, KroneckerDelta):
        return list(o.args)
    out = []
    for a in o.args:
        out.extend(_ordered_indices(a))
    return out


def _shape_key(o, axes):
    """hashable key describing o up to a renaming of its indices (same space
    and spin); None if o is not a plain tensor/delta (power)."""
    pos = {s: i for i, s in enumerate(axes)}

    def slot(s):
        return (s.space[0], s.spin, pos[s])
    ex = 1
    b = o
    if isinstance(o, Pow) and o.args[1].is_Integer and o.args[1] > 0:
        b, ex = o.args[0], int(o.args[1])
    k = kind_of(b)
    if k == "nonsym":
        return (k, b.name, ex, tuple(slot(s) for s in b.idx))
    if k is not None:
        return (k, b.name, int(b.bra_ket_sym), ex,
                tuple(slot(s) for s in b.upper),
                tuple(slot(s) for s in b.lower))
    if isinstance(b, KroneckerDelta):
        return ("delta", tuple(slot(s) for s in b.args))
    return None


# --------------------------------------------------------------------------
# contraction of a list of tables
# --------------------------------------------------------------------------
def _sum_out(axes, data, keep):
    """sum over the axes not in keep"""
    if all(a in keep for a in axes):
        return axes, data
    kpos = [i for i, a in enumerate(axes) if a in keep]
    out = {}
    for k, v in data.items():
        kk = tuple(k[i] for i in kpos)
        acc = out.get(kk)
        if acc is None:
            out[kk] = v.copy()
        else:
            acc.iadd(v)
    out = {k: v for k, v in out.items() if v.t}
    return tuple(axes[i] for i in kpos), out


def _join(A, B, keep):
    """multiply two tables and sum over the axes that are not in keep"""
    axA, dA = A
    axB, dB = B
    shared = [x for x in axA if x in axB]
    pA = [axA.index(x) for x in shared]
    pB = [axB.index(x) for x in shared]
    restB = [i for i, x in enumerate(axB) if x not in shared]
    axes = tuple(axA) + tuple(axB[i] for i in restB)
    kpos = [i for i, a in enumerate(axes) if a in keep]
    out_axes = tuple(axes[i] for i in kpos)
    index = {}
    for k, v in dB.items():
        index.setdefault(tuple(k[i] for i in pB), []).append(
            (tuple(k[i] for i in restB), v))
    out = {}
    full = len(kpos) == len(axes)
    for k, v in dA.items():
        lst = index.get(tuple(k[i] for i in pA))
        if not lst:
            continue
        for rest, w in lst:
            kk = k + rest
            if not full:
                kk = tuple(kk[i] for i in kpos)
            prod = v * w
            acc = out.get(kk)
            if acc is None:
                out[kk] = prod
            else:
                # prod is a fresh object -> accumulate into acc in place only
                # if acc is owned by out (it is: created by a product)
                acc.iadd(prod)
    out = {k: v for k, v in out.items() if v.t}
    return out_axes, out


def contract(tables, target, ranges):
    """contract a list of (axes, data) tables; returns table over `target`"""
    target = tuple(target)
    tset = set(target)
    tables = list(tables)
    if not tables:
        tables = [((), {(): ONE})]

    def needed(exclude):
        s = set(tset)
        for i, t in enumerate(tables):
            if i not in exclude:
                s.update(t[0])
        return s
    # pre-reduction of single tables
    for i in range(len(tables)):
        keep = needed({i})
        tables[i] = _sum_out(*tables[i], keep)
    while len(tables) > 1:
        # greedy choice of the pair with the smallest result
        best = None
        for i in range(len(tables)):
            for j in range(i + 1, len(tables)):
                keep = needed({i, j})
                axes = set(tables[i][0]) | set(tables[j][0])
                size = 1
                for a in axes:
                    if a in keep:
                        size *= len(ranges(a))
                shared = bool(set(tables[i][0]) & set(tables[j][0]))
                cost = (0 if shared else 1, size,
                        len(tables[i][1]) * len(tables[j][1]))
                if best is None or cost < best[0]:
                    best = (cost, i, j, keep)
        _, i, j, keep = best
        new = _join(tables[i], tables[j], keep)
        tables = [t for k, t in enumerate(tables) if k not in (i, j)]
        tables.append(new)
        if not new[1]:
            return Table(target, {})
    axes, data = tables[0]
    axes, data = _sum_out(axes, data, tset)
    # broadcast over target indices that do not occur, reorder
    if axes == target:
        return Table(target, data)
    missing = [t for t in target if t not in axes]
    pos = {a: i for i, a in enumerate(axes)}
    out = {}
    mr = [ranges(t) for t in missing]
    for k, v in data.items():
        for mv in itertools.product(*mr):
            m = dict(zip(missing, mv))
            kk = tuple(k[pos[t]] if t in pos else m[t] for t in target)
            out[kk] = v
    return Table(target, out)


# --------------------------------------------------------------------------
# expression level
# --------------------------------------------------------------------------
def split_terms(expr):
    if isinstance(expr, Add):
        return list(expr.args)
    return [expr]


def evaluate_term(term, target, model):
    """value table of a single term (product)"""
    ranges = model.space.idx_range
    factors = list(term.args) if isinstance(term, Mul) else [term]
    pref = ONE
    tables = []
    for f in factors:
        if f.is_Number:
            pref = pref * number_value(f)
        elif isinstance(f, Pow) and f.args[0].is_Number:
            pref = pref * _pow_number(*f.args)
        elif isinstance(f, Symbol) and not isinstance(f, Index):
            pref = pref * ring.var(f"sym:{f.name}")
        elif isinstance(f, Pow) and isinstance(f.args[0], Symbol) and \
                not isinstance(f.args[0], Index) and f.args[1].is_Integer \
                and f.args[1] > 0:
            pref = pref * ring.var(f"sym:{f.args[0].name}") ** int(f.args[1])
        else:
            if not indices_of(f):
                pref = pref * scalar(f, {}, model)
            else:
                tables.append(object_table(f, model, ranges))
    if not pref.t:
        return Table(target, {})
    res = contract(tables, target, ranges)
    if pref.t != ONE.t:
        res = Table(res.axes, {k: v * pref for k, v in res.data.items()})
    return res


def evaluate(expr, target, model, expand=False):
    """value table of a sympy expression (or an adcgen Expr) for the target
    tuple `target`.  The sum is split at the top-level Add only; Add nodes
    inside a product are evaluated pointwise (adcgen's 'polynom' objects)."""
    expr = getattr(expr, "sympy", expr)
    expr = S(expr)
    if expand:
        expr = expr.expand()
    target = tuple(target)
    total = {}
    tcache = model.__dict__.setdefault("_termcache", {})
    for term in split_terms(expr):
        if term is S.Zero:
            continue
        ck = (term, target)
        t = tcache.get(ck)
        if t is None:
            t = evaluate_term(term, target, model)
            if len(tcache) > 4000:
                tcache.clear()
            tcache[ck] = t
        for k, v in t.data.items():
            acc = total.get(k)
            if acc is None:
                total[k] = v.copy()
            else:
                acc.iadd(v)
    return Table(target, {k: v for k, v in total.items() if v.t})


def evaluate_slow(expr, target, model):
    """naive reference path (loops over all assignments); used to test the
    fast path on small inputs."""
    expr = S(getattr(expr, "sympy", expr))
    ranges = model.space.idx_range
    target = tuple(target)
    total = {}
    for term in split_terms(expr):
        if term is S.Zero:
            continue
        contracted = sorted(indices_of(term) - set(target), key=_idx_sort_key)
        for tv in itertools.product(*[ranges(t) for t in target]):
            base = dict(zip(target, tv))
            acc = total.setdefault(tv, Poly())
            for cv in itertools.product(*[ranges(c) for c in contracted]):
                asg = dict(base)
                asg.update(zip(contracted, cv))
                acc.iadd(scalar(term, asg, model))
    return Table(target, {k: v for k, v in total.items() if v.t})


def tables_equal(a, b):
    """first differing entry (key, va, vb) or None"""
    assert a.axes == b.axes, (a.axes, b.axes)
    for k in set(a.data) | set(b.data):
        va = a.data.get(k, ZERO)
        vb = b.data.get(k, ZERO)
        if not ring.equal(va, vb):
            return (k, va, vb)
    return None


def scale_table(t, c):
    c = c if isinstance(c, Poly) else ring.const(c)
    return Table(t.axes, {k: v * c for k, v in t.data.items()})


def add_tables(a, b, fac=1):
    assert a.axes == b.axes
    out = {k: v.copy() for k, v in a.data.items()}
    for k, v in b.data.items():
        acc = out.get(k)
        if acc is None:
            out[k] = v * fac
        else:
            acc.iadd(v, fac)
    return Table(a.axes, {k: v for k, v in out.items() if v.t})


def permute_table(t, perm_axes):
    """table with axes reordered: new axes = perm_axes (same set)"""
    pos = [t.axes.index(a) for a in perm_axes]
    return Table(perm_axes, {tuple(k[i] for i in pos): v
                             for k, v in t.data.items()})
