"""Rayleigh-Schroedinger perturbation theory by explicit linear algebra in
determinant space (independent of Wick's theorem and of adcgen).

Hamiltonian (second quantisation, spin orbitals, Fermi vacuum Phi0):

    H = sum_pq h_pq a+_p a_q + 1/4 sum_pqrs <pq||rs> a+_p a+_q a_s a_r,
    h_pq = f_pq - sum_i <pi||qi>

    MP:  H0 = sum_pq f_pq a+_p a_q                       H1 = H - H0
    RE:  H0 = excitation-class conserving part of H      H1 = H - H0
         (f_oo, f_vv, <pi||qi> with p, q in the same space, <pq||rs> with as
          many occupied indices in the bra as in the ket)

The matrix elements are taken from a `model.Model` (tensor names 'f' and 'V',
read with the bra-ket symmetry the model prescribes), so that library
expressions evaluated by vmc.evalexpr in the same model refer to the same
indeterminates.

Wavefunction convention of the library (documented in GroundState.psi):

    |psi_n> = sum_k  s_k / (k!)^2  sum_{ab.. ij..} t^{ab..}_{ij..}
                       NO(a+_a a+_b .. a_j a_i) |Phi0>,   s_k = -1 for doubles,
                                                          +1 otherwise
    i.e.  t^{ab..}_{ij..} = s_k <(a+_a a+_b .. a_j a_i Phi0)|psi_n>.
"""
import itertools

from . import ring, fock
from .ring import Poly, ZERO, ONE


def class_sign(k):
    return -1 if k == 2 else 1


class Hamiltonian:
    def __init__(self, fs, model, variant="mp", fock_name="f", eri_name="V"):
        self.fs, self.model, self.variant = fs, model, variant
        self.fock_name, self.eri_name = fock_name, eri_name
        self._terms = {}

    # ---- matrix elements
    def f(self, p, q):
        return self.model.value("anti", self.fock_name, 0, (p,), (q,))

    def v(self, p, q, r, s):
        return self.model.value("anti", self.eri_name, 0, (p, q), (r, s))

    def _in_h0(self, upper, lower):
        """RE: does the element with these orbitals belong to H0"""
        occ = self.fs.is_occ
        return sum(1 for p in upper if occ(p)) == \
            sum(1 for p in lower if occ(p))

    def terms(self, which):
        """list of (ops, coefficient) of H0 ('h0') or H1 ('h1')"""
        t = self._terms.get(which)
        if t is not None:
            return t
        fs = self.fs
        allorb = fs.occ + fs.virt
        t = []
        for p in allorb:
            for q in allorb:
                fpq = self.f(p, q)
                vpq = Poly()
                for i in fs.occ:
                    vpq.iadd(self.v(p, i, q, i), -1)
                if self.variant == "mp":
                    c = fpq if which == "h0" else vpq
                else:
                    inh0 = self._in_h0((p,), (q,))
                    c = (fpq + vpq) if inh0 == (which == "h0") else ZERO
                if c.t:
                    t.append(((("+", p), ("-", q)), c))
        pairs = list(itertools.combinations(allorb, 2))
        for p, q in pairs:
            for r, s in pairs:
                c = self.v(p, q, r, s)
                if not c.t:
                    continue
                if self.variant == "mp":
                    if which == "h0":
                        continue
                elif self._in_h0((p, q), (r, s)) != (which == "h0"):
                    continue
                t.append(((("+", p), ("+", q), ("-", s), ("-", r)), c))
        self._terms[which] = t
        return t

    def apply(self, which, state):
        return apply_terms(self.terms(which), state)

    def apply_bra(self, which, bra):
        """coefficient vector of <bra| O : apply the adjoint strings"""
        terms = [(tuple(fock.dagger(list(ops))), c)
                 for ops, c in self.terms(which)]
        return apply_terms(terms, bra)


def apply_terms(terms, state):
    out = {}
    for det, c in state.items():
        for ops, coef in terms:
            r = fock.apply_word_det(ops, det)
            if r is None:
                continue
            s, d = r
            val = c * coef
            if s != 1:
                val = -val
            acc = out.get(d)
            if acc is None:
                out[d] = val
            else:
                acc = acc + val
                if fock._is_zero(acc):
                    del out[d]
                else:
                    out[d] = acc
    return {d: c for d, c in out.items() if not fock._is_zero(c)}


# ---------------------------------------------------------------------------
# excited determinants and amplitudes
# ---------------------------------------------------------------------------
def excited_det(fs, virt, occ):
    """(sign, det) of  a+_{v1} a+_{v2} .. a_{o_k} .. a_{o_1} |Phi0>  (the
    operator string of the documented ansatz) or None if it vanishes"""
    ops = [("+", v) for v in virt] + [("-", o) for o in reversed(occ)]
    return fock.apply_word_det(ops, fs.ref)


def unique_excitations(fs, k):
    return [(o, v) for o in itertools.combinations(fs.occ, k)
            for v in itertools.combinations(fs.virt, k)]


def amplitude_of_state(fs, state, virt, occ):
    """t^{virt}_{occ} of a ket given as state, by the documented convention"""
    r = excited_det(fs, virt, occ)
    if r is None:
        return ZERO
    s, d = r
    c = state.get(d)
    if c is None:
        return ZERO
    s *= class_sign(len(virt))
    return c if s == 1 else -c


def state_from_amplitudes(fs, amp, classes):
    """sum_k s_k sum_{unique exc} amp(virt, occ) * (a+.. a.. |Phi0>)
    amp(virt tuple, occ tuple) -> ring element"""
    st = {}
    for k in classes:
        for o, v in unique_excitations(fs, k):
            c = amp(v, o)
            if not c.t:
                continue
            s, d = excited_det(fs, v, o)
            s *= class_sign(k)
            fock.add_into(st, {d: c}, s)
    return st


def classes_at_order(order, singles):
    """excitation classes present in the order-n wavefunction"""
    if order == 0:
        return []
    return [k for k in range(1, 2 * order + 1)
            if not (order == 1 and k == 1 and not singles)]


def formal_psi(fs, model, order, singles, bra=False, name="t"):
    """order-n wavefunction built from FORMAL amplitudes named as the library
    names them (t<order>, t<order>cc for the bra)"""
    if order == 0:
        return {fs.ref: ONE}
    nm = f"{name}{order}" + ("cc" if bra else "")

    def amp(v, o):
        return model.value("amp", nm, 0, tuple(v), tuple(o))
    classes = [k for k in classes_at_order(order, singles)
               if k <= min(fs.n_occ, fs.n_virt)]
    return state_from_amplitudes(fs, amp, classes)


# ---------------------------------------------------------------------------
# explicit RSPT (MP partitioning, canonical orbitals)
# ---------------------------------------------------------------------------
def e0_diff(fs, energy, det):
    """E0(ref) - E0(det) = sum_{i removed} e_i - sum_{a added} e_a"""
    p = Poly()
    for o in fs.occ:
        if not det >> o & 1:
            p.iadd(energy(o))
    for v in fs.virt:
        if det >> v & 1:
            p.iadd(energy(v), -1)
    return p


def rspt_mp(ham, nmax, energy):
    """explicit MP series with a diagonal H0 (canonical orbitals):
    returns (list of states psi_0..psi_nmax, list of energies E_0..E_nmax+1)
    energy(p) -> ring element (orbital energy)"""
    fs = ham.fs
    ref = fs.ref
    psi = [{ref: ONE}]
    e0 = Poly()
    for o in fs.occ:
        e0.iadd(energy(o))
    en = [e0]
    inv_cache = {}
    for n in range(1, nmax + 2):
        h = ham.apply("h1", psi[n - 1])
        en.append(h.get(ref, ZERO))
        if n == nmax + 1:
            break
        rhs = dict(h)
        for m in range(1, n + 1):
            fock.add_into(rhs, psi[n - m], -en[m])
        new = {}
        for det, c in rhs.items():
            if det == ref:
                continue
            inv = inv_cache.get(det)
            if inv is None:
                inv = ring.inverse(e0_diff(fs, energy, det))
                inv_cache[det] = inv
            new[det] = c * inv
        psi.append(new)
    return psi, en


# ---------------------------------------------------------------------------
# series helpers (power series in the perturbation parameter, truncated)
# ---------------------------------------------------------------------------
def series_mul(a, b, nmax):
    out = [ZERO] * (nmax + 1)
    for i, x in enumerate(a):
        if i > nmax or not x.t:
            continue
        for j, y in enumerate(b):
            if i + j > nmax:
                break
            if y.t:
                out[i + j] = out[i + j] + x * y
    return out


def series_dot(bra, ket, nmax):
    out = [ZERO] * (nmax + 1)
    for i, a in enumerate(bra):
        if i > nmax or not a:
            continue
        for j, b in enumerate(ket):
            if i + j > nmax:
                break
            if b:
                v = fock.dot(a, b)
                if not isinstance(v, Poly):
                    v = ring.const(v)
                out[i + j] = out[i + j] + v
    return out


def series_scale_state(ss, st, nmax):
    """scalar series times state series"""
    out = [{} for _ in range(nmax + 1)]
    for i, a in enumerate(ss):
        if i > nmax or not a.t:
            continue
        for j, b in enumerate(st):
            if i + j > nmax:
                break
            if b:
                fock.add_into(out[i + j], b, a)
    return out


def series_add_state(a, b, fac=1):
    out = []
    for x, y in zip(a, b):
        z = dict(x)
        fock.add_into(z, y, fac)
        out.append(z)
    return out


def binomial_series(x, alpha, nmax):
    """(1 + x)^alpha for a scalar series x with x[0] == 0; alpha a Fraction"""
    from fractions import Fraction
    assert not x[0].t
    res = [ONE] + [ZERO] * nmax
    term = [ONE] + [ZERO] * nmax
    coef = Fraction(1)
    alpha = Fraction(alpha)
    for k in range(1, nmax + 1):
        coef = coef * (alpha - (k - 1)) / k
        term = series_mul(term, x, nmax)
        res = [r + t * coef for r, t in zip(res, term)]
    return res
