"""Explorer driver, evidence writer and violation / known-finding protocol.

A *check module* (vmc/checks/cNN.py) provides

    ID            property id
    RULE          text: how cases are enumerated / what is non-trivial
    ASSUMPTIONS   list of strings
    generate(tier)   -> iterable of picklable, JSON-able case descriptors,
                        simplest first
    run_case(case)   -> dict with
          status      'ok' | 'violation' | 'skip' | 'cap'
          key         canonical key of the explored state (str)
          outcome     short str describing the observed result shape
          nontrivial  bool
          transitions number of calls of adcgen entry points
          detail      str (for violations)
          finding     str  classification of a violation used to match
                      known findings (specific: input class / call site)
    optional:
      FRESH_FORK = True   every case in a worker forked from the pristine parent
      CASE_TIMEOUT = seconds
      bounds(tier) -> dict   (recorded in the evidence)
      finalize(tier, results) -> list of extra violation dicts (cross-case
                                 invariants, e.g. injectivity)
"""
import hashlib
import json
import multiprocessing as mp
import os
import signal
import sys
import time
import traceback

VERIF = os.path.dirname(os.path.dirname(os.path.abspath(__file__)))
EVIDENCE_DIR = os.path.join(VERIF, "evidence")
REPLAY_DIR = os.environ.get("VERIF_REPLAY_DIR") or os.path.join(VERIF, "replays")
KNOWN_FILE = os.path.join(VERIF, "known_findings.json")

_MOD = None


class CaseTimeout(BaseException):
    """raised by the per-case alarm; not an Exception so that the checks'
    'except Exception' around library calls cannot mistake it for a failure of
    the library"""


def _alarm(signum, frame):
    raise CaseTimeout()


def _worker_init(modname):
    global _MOD
    import importlib
    _MOD = importlib.import_module(modname)
    # bound the address space of a worker: a case whose evaluation blows up
    # (clearing many orbital-energy brackets with high powers can need tens
    # of GB) then fails with MemoryError and is reported as a cap instead of
    # waking the kernel's OOM killer
    try:
        import resource
        gb = float(os.environ.get("VERIF_MEM_GB",
                                  getattr(_MOD, "MEM_LIMIT_GB", 10)))
        lim = int(gb * 1024 ** 3)
        resource.setrlimit(resource.RLIMIT_AS, (lim, lim))
    except Exception:  # noqa
        pass
    init = getattr(_MOD, "worker_init", None)
    if init:
        init()


def _run_one(case):
    t0 = time.time()
    timeout = getattr(_MOD, "CASE_TIMEOUT", None)
    if timeout:
        signal.signal(signal.SIGALRM, _alarm)
        signal.alarm(int(timeout))
    try:
        res = _MOD.run_case(case)
    except CaseTimeout:
        res = {"status": "cap", "key": "timeout:" + json.dumps(case, default=str),
               "outcome": "timeout", "nontrivial": False, "transitions": 1,
               "detail": f"timeout after {timeout}s"}
    except MemoryError:
        res = None      # built below, after the frames of the failed
        #                 evaluation have been released
    except Exception:
        res = {"status": "violation", "key": "exc:" + json.dumps(case, default=str),
               "outcome": "harness-exception", "nontrivial": False,
               "transitions": 0, "finding": "harness-exception",
               "detail": "exception escaped run_case:\n" + traceback.format_exc()}
    finally:
        if timeout:
            signal.alarm(0)
    if res is None:
        _free_memory()
        res = {"status": "cap", "key": "memory:" + json.dumps(case, default=str),
               "outcome": "memory-limit", "nontrivial": False,
               "transitions": 1,
               "detail": "MemoryError under the per-worker address-space "
                         "limit"}
    if isinstance(res, dict):
        res = [res]
    wall = time.time() - t0
    for r in res:
        r["case"] = case
        r["wall"] = wall
    return res


def _free_memory():
    """release the evaluator's caches after a MemoryError"""
    import gc
    gc.collect()
    try:
        from .model import Model
        for o in gc.get_objects():
            if isinstance(o, Model):
                o._cache.clear()
                o.__dict__.pop("_tabcache", None)
                o.__dict__.pop("_termcache", None)
        from sympy.core.cache import clear_cache
        clear_cache()
    except Exception:  # noqa
        pass
    gc.collect()


def _run_chunk(chunk):
    out = []
    for c in chunk:
        out.extend(_run_one(c))
    return out


def load_known():
    if not os.path.exists(KNOWN_FILE):
        return []
    with open(KNOWN_FILE) as f:
        return json.load(f).get("findings", [])


def run_check(modname, tier, seed, replay=None, nproc=None, max_cases=None):
    import importlib
    mod = importlib.import_module(modname)
    pid = mod.ID
    t0 = time.time()
    nproc = nproc or min(16, os.cpu_count() or 1)
    fresh = getattr(mod, "FRESH_FORK", False)
    if replay:
        with open(replay) as f:
            cases = [json.loads(json.dumps(c)) for c in json.load(f)["cases"]]
        cases = [_tuplify(c) for c in cases]
    else:
        cases = list(mod.generate(tier))
    n_generated = len(cases)
    chunk = 1 if fresh else max(1, min(64, len(cases) // (nproc * 8) or 1))
    chunk = getattr(mod, "CHUNK", chunk)
    chunks = [cases[i:i + chunk] for i in range(0, len(cases), chunk)]
    cost = getattr(mod, "cost", None)
    if cost is not None:
        # longest-running cases first (execution order only: results are
        # re-sorted into generation order below)
        chunks.sort(key=lambda ch: -sum(cost(c) for c in ch))
    results = []
    ctx = mp.get_context("fork")
    if nproc == 1 or len(cases) <= 1:
        _worker_init(modname)
        for c in chunks:
            results.extend(_run_chunk(c))
    else:
        # a worker that is killed from outside (e.g. by the OOM killer) loses
        # its chunk and multiprocessing.Pool would wait for it forever: wait
        # at most `stall` seconds for the next result, then give up and
        # report the cases without a result as caps
        per_case = getattr(mod, "CASE_TIMEOUT", None) or 1800
        stall = per_case * max(len(c) for c in chunks) + 900
        with ctx.Pool(nproc, initializer=_worker_init, initargs=(modname,),
                      maxtasksperchild=1 if fresh else 50) as pool:
            it = pool.imap_unordered(_run_chunk, chunks)
            while True:
                try:
                    r = it.next(timeout=stall)
                except StopIteration:
                    break
                except mp.TimeoutError:
                    done = {json.dumps(x["case"], default=str)
                            for x in results}
                    lost = [c for c in cases
                            if json.dumps(c, default=str) not in done]
                    print(f"HARNESS: no result for {stall}s; {len(lost)} "
                          "case(s) without a result (worker killed or "
                          "stalled) are reported as caps")
                    for c in lost:
                        results.append({
                            "status": "cap", "case": c, "wall": 0.0,
                            "key": "lost:" + json.dumps(c, default=str),
                            "outcome": "lost", "nontrivial": False,
                            "transitions": 0,
                            "detail": "no result: worker killed or stalled"})
                    pool.terminate()
                    break
                results.extend(r)
    # deterministic order for everything below
    order = {json.dumps(c, default=str): i for i, c in enumerate(cases)}
    results.sort(key=lambda r: order.get(json.dumps(r["case"], default=str), 0))
    extra = []
    fin = getattr(mod, "finalize", None)
    if fin is not None:
        extra = list(fin(tier, results) or [])
    viols = [r for r in results if r["status"] == "violation"] + extra
    caps = [r for r in results if r["status"] == "cap"]
    known = [k for k in load_known() if k["property"] == pid]
    known_open = [k for k in known if k.get("status") == "known"]
    new_viols, known_hits = [], {}
    for v in viols:
        hit = None
        for k in known_open:
            if v.get("finding") and v["finding"] == k["key"]:
                hit = k
                break
        if hit is None:
            new_viols.append(v)
        else:
            known_hits.setdefault(hit["key"], []).append(v)
    for k in known_open:
        if k["key"] in known_hits:
            print(f"KNOWN-FINDING: property={pid} {k['what']} "
                  f"[{len(known_hits[k['key']])} case(s), key={k['key']}]")
    replay_path = None
    if new_viols:
        os.makedirs(REPLAY_DIR, exist_ok=True)
        first = new_viols[:20]
        h = hashlib.sha1(json.dumps([v.get("case") for v in first],
                                    default=str).encode()).hexdigest()[:10]
        replay_path = os.path.join(REPLAY_DIR, f"{pid}_{h}.json")
        with open(replay_path, "w") as f:
            json.dump({"property": pid, "tier": tier, "seed": seed,
                       "replay_cmd": f"/venv/bin/python run_check.py {pid} "
                                     f"--replay {replay_path}",
                       "cases": [v.get("case") for v in first],
                       "details": [{"finding": v.get("finding"),
                                    "detail": v.get("detail")} for v in first]},
                      f, indent=1, default=str)
        for v in first[:5]:
            print("---- violating case:", json.dumps(v.get("case"), default=str))
            print(v.get("detail", "")[:3000])
        print(f"({len(new_viols)} violating case(s) in total)")
        hist = {}
        for v in new_viols:
            hist[v.get("finding")] = hist.get(v.get("finding"), 0) + 1
        for k, n in sorted(hist.items(), key=lambda x: -x[1])[:30]:
            print(f"    {n:7d}  finding={k}")
    # ---- evidence
    keys = set()
    nontriv = set()
    outcomes = {}
    transitions = 0
    agg_states = agg_nontriv = 0
    for r in results:
        if r["status"] == "skip":
            continue
        agg = r.get("agg")
        if agg:
            # a worker-side aggregate of many distinct states (their keys are
            # distinct by construction of the enumeration)
            agg_states += agg["states"]
            agg_nontriv += agg["nontrivial"]
            transitions += agg["transitions"]
            for o, n in agg["outcomes"].items():
                outcomes[o] = outcomes.get(o, 0) + n
            continue
        keys.add(r["key"])
        if r.get("nontrivial"):
            nontriv.add(r["key"])
        outcomes[r.get("outcome", "")] = outcomes.get(r.get("outcome", ""), 0) + 1
        transitions += int(r.get("transitions", 1))
    samples = []
    desc = getattr(mod, "describe", None)
    step = max(1, len(results) // 8)
    for r in results[::step][:8]:
        samples.append(desc(r["case"]) if desc else r["case"])
    top_outcomes = dict(sorted(outcomes.items(), key=lambda x: -x[1])[:25])
    coverage = {
        "states": len(keys) + agg_states,
        "transitions": transitions,
        "traces_validated_against_impl": transitions,
        "evaluations": n_generated,
        "distinct_nontrivial": len(nontriv) + agg_nontriv,
        "rule": mod.RULE,
        "samples": samples,
        "exhaustive": (not caps) and max_cases is None and not replay,
        "distinct_outcomes": len(outcomes),
        "outcome_histogram_top": top_outcomes,
        "skipped_by_generator_rules": sum(1 for r in results
                                          if r["status"] == "skip"),
        "caps_hit": [{"case": c["case"], "detail": c.get("detail")}
                     for c in caps[:50]],
        "n_caps": len(caps),
        "bounds": mod.bounds(tier) if hasattr(mod, "bounds") else {},
        "python_hash_seed": os.environ.get("PYTHONHASHSEED"),
        "workers": nproc,
        "adcgen_imported_from": _adcgen_path(),
        "known_findings_hit": {k: len(v) for k, v in known_hits.items()},
        "max_case_wall_s": round(max((r["wall"] for r in results), default=0), 2),
    }
    extra_cov = getattr(mod, "extra_coverage", None)
    if extra_cov:
        coverage.update(extra_cov(tier, results))
    if len(outcomes) <= 1 and len(results) > 1:
        coverage["vacuity_warning"] = "only one distinct outcome observed"
    ev = {
        "property_id": pid,
        "tier": tier,
        "seed": seed,
        "level": "model_checking",
        "coverage": coverage,
        "assumptions": list(getattr(mod, "ASSUMPTIONS", [])),
        "wall_s": round(time.time() - t0, 2),
        "violations": len(new_viols),
    }
    if not replay and not os.environ.get("VERIF_NO_EVIDENCE"):
        os.makedirs(EVIDENCE_DIR, exist_ok=True)
        with open(os.path.join(EVIDENCE_DIR, f"{pid}.json"), "w") as f:
            json.dump(ev, f, indent=1, default=str)
    print(f"adcgen_from={_adcgen_path()}")
    print(f"{pid} tier={tier} seed={seed} cases={n_generated} states={len(keys) + agg_states} "
          f"transitions={transitions} nontrivial={len(nontriv) + agg_nontriv} "
          f"outcomes={len(outcomes)} caps={len(caps)} "
          f"known={sum(len(v) for v in known_hits.values())} "
          f"violations={len(new_viols)} wall={ev['wall_s']}s")
    if new_viols:
        print(f"VIOLATION property={pid} replay={replay_path}")
        return 1
    return 0


def _adcgen_path():
    import adcgen
    return os.path.dirname(os.path.abspath(adcgen.__file__))


def _tuplify(x):
    if isinstance(x, list):
        return tuple(_tuplify(y) for y in x)
    return x
