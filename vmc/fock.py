"""Determinant-space (Fock-space) algebra, independent of Wick's theorem and
of adcgen.

Spin orbitals are numbered as in `model.Space` (occupied first, then
virtual).  A determinant is a python int used as bit string (bit p set =
orbital p occupied).  A *state* is a dict  determinant -> coefficient  where
the coefficients are python ints / Fractions or `ring.Poly` (anything with +
and *).  Operators are pairs (kind, p) with kind '+' (creator a^dagger_p) or
'-' (annihilator a_p).  A product of operators `ops` acts on a ket from the
right, i.e. the LAST operator of the list acts first.
"""
from .ring import Poly


def _parity_below(det, p):
    return bin(det & ((1 << p) - 1)).count("1") & 1


def apply_op(kind, p, det):
    """(sign, new determinant) or None"""
    bit = 1 << p
    if kind == "+":
        if det & bit:
            return None
    elif not det & bit:
        return None
    return (-1 if _parity_below(det, p) else 1), det ^ bit


def apply_word_det(ops, det):
    """apply the operator product to one determinant: (sign, det) | None"""
    s = 1
    for kind, p in reversed(ops):
        r = apply_op(kind, p, det)
        if r is None:
            return None
        s *= r[0]
        det = r[1]
    return s, det


def _is_zero(c):
    if isinstance(c, Poly):
        return not c.t
    return c == 0


def add_into(acc, state, fac=1):
    """acc += fac * state (in place), returns acc"""
    for d, c in state.items():
        c = c * fac
        v = acc.get(d)
        if v is None:
            if not _is_zero(c):
                acc[d] = c
        else:
            v = v + c
            if _is_zero(v):
                del acc[d]
            else:
                acc[d] = v
    return acc


def scale(state, fac):
    out = {}
    for d, c in state.items():
        c = c * fac
        if not _is_zero(c):
            out[d] = c
    return out


def apply_word(ops, state):
    """operator product applied to a state"""
    out = {}
    for det, c in state.items():
        r = apply_word_det(ops, det)
        if r is None:
            continue
        s, d = r
        v = out.get(d)
        cc = c if s == 1 else -c
        if v is None:
            out[d] = cc
        else:
            v = v + cc
            if _is_zero(v):
                del out[d]
            else:
                out[d] = v
    return out


def dot(bra, ket):
    """sum_d bra[d]*ket[d]  (no complex conjugation: the bra coefficient
    vector is given explicitly)"""
    if len(bra) > len(ket):
        bra, ket = ket, bra
    acc = 0
    for d, c in bra.items():
        k = ket.get(d)
        if k is not None:
            acc = acc + c * k
    return acc


def dagger(ops):
    return [("-" if k == "+" else "+", p) for k, p in reversed(ops)]


class FockSpace:
    def __init__(self, n_occ, n_virt):
        self.n_occ, self.n_virt = n_occ, n_virt
        self.n = n_occ + n_virt
        self.occ = list(range(n_occ))
        self.virt = list(range(n_occ, self.n))
        self.ref = (1 << n_occ) - 1

    def is_occ(self, p):
        return p < self.n_occ

    def is_q_annihilator(self, op):
        """annihilates the Fermi vacuum: a_virt or a^dagger_occ"""
        kind, p = op
        return (kind == "-") != self.is_occ(p)

    def normal_order(self, ops):
        """Normal ordering w.r.t. the Fermi vacuum: (sign, reordered ops) with
        every quasi-creator left of every quasi-annihilator (stable), sign =
        parity of the permutation; None if the group vanishes (an operator
        occurs twice: inside a normal-ordered product all operators
        anticommute)."""
        if len(set(ops)) < len(ops):
            return None
        keyed = [(1 if self.is_q_annihilator(o) else 0, i) for i, o in
                 enumerate(ops)]
        # parity of the stable sort by key = number of inversions
        inv = 0
        for i in range(len(keyed)):
            for j in range(i + 1, len(keyed)):
                if keyed[i][0] > keyed[j][0]:
                    inv += 1
        order = sorted(range(len(ops)), key=lambda i: keyed[i])
        return (-1 if inv & 1 else 1), [ops[i] for i in order]

    def expect_ref(self, segments):
        """<ref| seg_1 seg_2 ... seg_n |ref> for segments given as
        ('ops', [ops]) or ('no', [ops]) with integer result"""
        det, sign = self.ref, 1
        for kind, ops in reversed(segments):
            if kind == "no":
                r = self.normal_order(ops)
                if r is None:
                    return 0
                sign *= r[0]
                ops = r[1]
            r = apply_word_det(ops, det)
            if r is None:
                return 0
            sign *= r[0]
            det = r[1]
        return sign if det == self.ref else 0

    def excitation_level(self, det):
        return bin(det & ~self.ref).count("1"), \
            bin(~det & self.ref).count("1")
