"""Explicit power-series construction of the intermediate state
representation (ISR) in determinant space - independent of adcgen.

Everything is a truncated power series in the perturbation parameter (list
index = order).  The ground state is built from FORMAL amplitudes t<n> (ket)
and t<n>cc (bra) with the documented ansatz (off-shell regime), normalised
with the binomial series of <Psi|Psi>^(-1/2).

For every excitation class of the ADC variant, lowest first:

  precursor     |I#> = C_I |Psi0>  [ - |Psi0><Psi0|C_I|Psi0>   (pp only) ]
                       - sum_{J in lower classes, unique} |J~><J~|C_I|Psi0>
  overlap       S_IJ = <I#|J#>
  intermediate  |I~> = sum_J |J#> (S^-1/2)_JI       (binomial series of S - 1)

with C_I = a+_a a+_b .. a_i a_j ..  (creators on the virtual, annihilators on
the occupied indices, in the order given - the convention of
IntermediateStates.precursor).  Bra states are carried as explicit coefficient
vectors (no complex conjugation is ever taken: t<n>cc are independent
indeterminates).
"""
import itertools
from fractions import Fraction

from . import ring, fock, rspt
from .ring import Poly, ZERO, ONE
from .model import sort_sign

VARIANT_CLASSES = {
    # (n_occ annihilated, n_virt created) lowest class first
    "pp": [(1, 1), (2, 2), (3, 3)],
    "ip": [(1, 0), (2, 1), (3, 2)],
    "ea": [(0, 1), (1, 2), (2, 3)],
    "dip": [(2, 0), (3, 1)],
    "dea": [(0, 2), (1, 3)],
}


def space_string(cls):
    no, nv = cls
    return "p" * nv + "h" * no


def class_of_space(space):
    return (space.count("h"), space.count("p"))


class ISR:
    def __init__(self, fs, model, variant, maxorder, singles=False,
                 n_classes=2, gs_variant="mp"):
        self.fs, self.model, self.variant = fs, model, variant
        self.nmax = maxorder
        self.singles = singles
        self.ham = rspt.Hamiltonian(fs, model, gs_variant)
        n = maxorder
        self.ket = [rspt.formal_psi(fs, model, k, singles) for k in range(n + 1)]
        self.bra = [rspt.formal_psi(fs, model, k, singles, bra=True)
                    for k in range(n + 1)]
        nser = rspt.series_dot(self.bra, self.ket, n)
        self.norm = nser
        x = [ZERO] + nser[1:]
        self.a = rspt.binomial_series(x, Fraction(-1, 2), n)
        self.ket0 = rspt.series_scale_state(self.a, self.ket, n)
        self.bra0 = rspt.series_scale_state(self.a, self.bra, n)
        # ground state energies (intermediate normalisation)
        self.energy = [self.ham.apply("h0", {fs.ref: ONE}).get(fs.ref, ZERO)]
        for k in range(1, n + 1):
            self.energy.append(
                self.ham.apply("h1", self.ket[k - 1]).get(fs.ref, ZERO))
        self.classes = [c for c in VARIANT_CLASSES[variant][:n_classes]
                        if c[0] <= fs.n_occ and c[1] <= fs.n_virt]
        self.basis = {}
        self.pre_ket, self.pre_bra = {}, {}
        self.isr_ket, self.isr_bra = {}, {}
        self.S = {}
        self._build()
        self._hk = {}

    # ------------------------------------------------------------ helpers
    def c_ops(self, occ, virt):
        return [("+", a) for a in virt] + [("-", i) for i in occ]

    def _on_series(self, ops, series):
        return [fock.apply_word(ops, st) if st else {} for st in series]

    def _sub_proj(self, state, ov, onto):
        """state - onto * ov   (ov scalar series, onto state series)"""
        return rspt.series_add_state(
            state, rspt.series_scale_state(ov, onto, self.nmax), -1)

    def _build(self):
        n = self.nmax
        lower = []
        for cls in self.classes:
            no, nv = cls
            B = [(o, v) for o in itertools.combinations(self.fs.occ, no)
                 for v in itertools.combinations(self.fs.virt, nv)]
            self.basis[cls] = B
            for I in B:
                ops = self.c_ops(*I)
                k = self._on_series(ops, self.ket0)
                b = self._on_series(ops, self.bra0)
                if self.variant == "pp":
                    k = self._sub_proj(k, rspt.series_dot(self.bra0, k, n),
                                       self.ket0)
                    b = self._sub_proj(b, rspt.series_dot(b, self.ket0, n),
                                       self.bra0)
                for lc in lower:
                    for J in self.basis[lc]:
                        ov = rspt.series_dot(self.isr_bra[(lc, J)], k, n)
                        k = self._sub_proj(k, ov, self.isr_ket[(lc, J)])
                        ov = rspt.series_dot(b, self.isr_ket[(lc, J)], n)
                        b = self._sub_proj(b, ov, self.isr_bra[(lc, J)])
                self.pre_ket[(cls, I)] = k
                self.pre_bra[(cls, I)] = b
            S = {(I, J): rspt.series_dot(self.pre_bra[(cls, I)],
                                         self.pre_ket[(cls, J)], n)
                 for I in B for J in B}
            self.S[cls] = S
            for I in B:
                for J in B:
                    z = S[(I, J)][0]
                    want = ONE if I == J else ZERO
                    if not ring.equal(z, want):
                        raise AssertionError(
                            f"zeroth-order precursor overlap {I},{J} = {z!r}")
            # S^(-1/2) = sum_k binom(-1/2, k) X^k,  X = S - 1
            X = {key: [ZERO] + v[1:] for key, v in S.items()}
            R = {(I, J): [ONE if I == J else ZERO] + [ZERO] * n
                 for I in B for J in B}
            term = {key: list(v) for key, v in R.items()}
            coef = Fraction(1)
            for kk in range(1, n + 1):
                coef = coef * (Fraction(-1, 2) - (kk - 1)) / kk
                term = self._mat_mul(term, X, B)
                if all(not p.t for v in term.values() for p in v):
                    break
                for key in R:
                    R[key] = [a + b * coef for a, b in zip(R[key], term[key])]
            self.Sroot = getattr(self, "Sroot", {})
            self.Sroot[cls] = R
            for I in B:
                k = [{} for _ in range(n + 1)]
                b = [{} for _ in range(n + 1)]
                for J in B:
                    k = rspt.series_add_state(k, rspt.series_scale_state(
                        R[(J, I)], self.pre_ket[(cls, J)], n))
                    b = rspt.series_add_state(b, rspt.series_scale_state(
                        R[(I, J)], self.pre_bra[(cls, J)], n))
                self.isr_ket[(cls, I)] = k
                self.isr_bra[(cls, I)] = b
            lower.append(cls)

    def _mat_mul(self, A, Bm, B):
        n = self.nmax
        out = {}
        for I in B:
            for J in B:
                acc = [ZERO] * (n + 1)
                for K in B:
                    p = rspt.series_mul(A[(I, K)], Bm[(K, J)], n)
                    acc = [x + y for x, y in zip(acc, p)]
                out[(I, J)] = acc
        return out

    # ------------------------------------------------------------ queries
    def to_basis(self, cls, occ, virt):
        """(sign, basis element) of an arbitrary assignment, or (0, None)"""
        so, o = sort_sign(occ)
        sv, v = sort_sign(virt)
        if so * sv == 0:
            return 0, None
        return so * sv, (tuple(o), tuple(v))

    def overlap_series(self, clsI, I, clsJ, J):
        return rspt.series_dot(self.isr_bra[(clsI, I)],
                               self.isr_ket[(clsJ, J)], self.nmax)

    def _h_on_ket(self, key):
        hit = self._hk.get(key)
        if hit is None:
            k = self.isr_ket[key]
            hit = ([self.ham.apply("h0", st) if st else {} for st in k],
                   [self.ham.apply("h1", st) if st else {} for st in k])
            self._hk[key] = hit
        return hit

    def matrix_series(self, clsI, I, clsJ, J, subtract_gs=True):
        """<I~| H0 + lambda H1 [- sum_m lambda^m E_m] |J~> as series"""
        n = self.nmax
        b = self.isr_bra[(clsI, I)]
        k = self.isr_ket[(clsJ, J)]
        h0k, h1k = self._h_on_ket((clsJ, J))
        out = rspt.series_dot(b, h0k, n)
        s1 = rspt.series_dot(b, h1k, n - 1) if n >= 1 else []
        for i, v in enumerate(s1):
            out[i + 1] = out[i + 1] + v
        if subtract_gs:
            ov = rspt.series_dot(b, k, n)
            sub = rspt.series_mul(self.energy, ov, n)
            out = [x - y for x, y in zip(out, sub)]
        return out

    def operator_series(self, terms, clsI, I, clsJ, J):
        """<I~| D |J~> for an operator given as list of (ops, coefficient)"""
        n = self.nmax
        b = self.isr_bra[(clsI, I)]
        k = self.isr_ket[(clsJ, J)]
        dk = [rspt.apply_terms(terms, st) if st else {} for st in k]
        return rspt.series_dot(b, dk, n)

    def gs_expectation_series(self, terms):
        """<Psi0| D |Psi0> with the normalised ground state"""
        n = self.nmax
        dk = [rspt.apply_terms(terms, st) if st else {} for st in self.ket0]
        return rspt.series_dot(self.bra0, dk, n)

    def transition_series(self, terms, clsI, I):
        """<I~| D |Psi0>"""
        n = self.nmax
        dk = [rspt.apply_terms(terms, st) if st else {} for st in self.ket0]
        return rspt.series_dot(self.isr_bra[(clsI, I)], dk, n)
