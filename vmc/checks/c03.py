"""C03  Secular matrix equals <I|H - E0|J> over explicitly built intermediate
states.

Explored: ADC variant in {pp, ip, ea, dip, dea} x every ordered pair of the
two lowest excitation classes x perturbation order x subtract_gs x
{isr_matrix_block, precursor_matrix_block, mvp_block_order}, every request in
a pristine forked interpreter, evaluated in the model spaces of `bounds`;
plus the bookkeeping functions max_ptorder_spaces / block_order for every
variant and ADC order <= 8 against the rule 'block (mu, nu) is expanded
through order n - mu - nu, class mu is present iff mu <= n // 2'.

Oracle: vmc/isr.py - power-series ISR construction in determinant space
(excitation operators on the normalised perturbed ground state built from
FORMAL amplitudes, Gram-Schmidt against the ground state (pp) and the lower
classes, S^-1/2 by the binomial matrix series), H = H0 + H1 applied to
determinants, E_n = <Phi0|H1|psi_(n-1)>.  The library table over ALL
assignments of the bra / ket index strings must equal
sign(I) sign(J) M_explicit[unique I, unique J] at the requested order - an
exact identity of polynomials in t, tcc, f, V (off-shell; it implies the
on-shell statement of the property).  mvp: r_I = (g_I g_J)^(-1/2) sum_{J all}
M_IJ Y_J with g = n_occ! n_virt! of the class and Y a formal antisymmetric
vector.  Transpose: in the real model (bra-ket symmetric f, V; tcc = t) the
table of block (A,B) at (I,J) equals the table of block (B,A) at (J,I).
"""
import itertools
from fractions import Fraction

from sympy import S

from .. import gen, ring, fock, rspt
from ..ring import Poly, ZERO, ONE
from ..model import Space, Model
from ..evalexpr import evaluate, tables_equal, Table, Unsupported
from ..isr import ISR, VARIANT_CLASSES, space_string
from .common import fmt_diff, safe_call

ID = "C03"
FRESH_FORK = True
CASE_TIMEOUT = 3000
RULE = ("state = (request, ADC variant, bra class, ket class, order, "
        "subtract_gs, model space); non-trivial = the explicit matrix "
        "element table is not identically zero")
ASSUMPTIONS = [
    "MP partitioning; formal f, <pq||rs>, t<n>, t<n>cc (independent "
    "indeterminates, bra-ket partners independent) - off-shell identity, "
    "which implies the on-shell statement",
    "excitation operator convention of IntermediateStates.precursor (creators "
    "on virtual, annihilators on occupied indices, given order)",
    "model spaces in bounds()",
]

OCC = "ijklmno"
VIRT = "abcdefg"
_TIER = ["quick"]


def _names(cls, which, swap=False):
    """index string of a class: occupied then virtual names; swap: the first
    two names of a space are listed in descending order (ji.. / ..ba)"""
    off = which * 3
    o = list(OCC[off:off + cls[0]])
    v = list(VIRT[off:off + cls[1]])
    if swap:
        if len(o) >= 2:
            o[0], o[1] = o[1], o[0]
        elif len(v) >= 2:
            v[0], v[1] = v[1], v[0]
    return "".join(o) + "".join(v)


def bounds(tier):
    if tier == "quick":
        return {"max_order_lowest": 2, "max_order_coupling": 2,
                "max_order_second": 1,
                "models": {"pp": [[2, 2], [3, 3]], "ip": [[2, 1], [2, 2]],
                           "ea": [[1, 2], [2, 2]], "dip": [[3, 1]],
                           "dea": [[1, 3]]},
                "bookkeeping_adc_orders": list(range(0, 9))}
    return {"max_order_lowest": 3, "max_order_coupling": 2,
            "max_order_second": 2,
            "models": {"pp": [[2, 2], [3, 3]], "ip": [[2, 1], [2, 2], [3, 2]],
                       "ea": [[1, 2], [2, 2], [2, 3]],
                       "dip": [[3, 1], [3, 2]], "dea": [[1, 3], [2, 3]]},
            "bookkeeping_adc_orders": list(range(0, 13))}


def generate(tier):
    _TIER[0] = tier
    b = bounds(tier)
    cases = []
    for variant in ("pp", "ip", "ea", "dip", "dea"):
        classes = VARIANT_CLASSES[variant][:2]
        for c1 in classes:
            for c2 in classes:
                if c1 == c2 == classes[0]:
                    mo = b["max_order_lowest"]
                elif c1 == c2:
                    mo = b["max_order_second"]
                    if tier == "quick" and variant in ("ip", "ea"):
                        mo = 2      # cheap (< 20 s in the library)
                else:
                    mo = b["max_order_coupling"]
                if variant in ("dip", "dea") and tier == "quick":
                    mo = min(mo, 1) if c1 != c2 or c1 != classes[0] else mo
                for n in range(mo + 1):
                    cases.append(("isr", variant, c1, c2, n, True))
                    if n <= 1:
                        # index strings that list two indices of a space in
                        # descending order (bra / ket)
                        if max(c1) >= 2:
                            cases.append(("isr", variant, c1, c2, n, True,
                                          "b"))
                        if max(c2) >= 2:
                            cases.append(("isr", variant, c1, c2, n, True,
                                          "k"))
                    if n <= 2:
                        cases.append(("mvp", variant, c1, c2, n, True))
                    if n <= 1 or (c1 == c2 == classes[0] and n <= 2):
                        cases.append(("isr", variant, c1, c2, n, False))
                        cases.append(("precursor", variant, c1, c2, n, True))
                    if c1 <= c2:
                        cases.append(("transpose", variant, c1, c2, n, True))
        if tier == "thorough" and len(VARIANT_CLASSES[variant]) > 2:
            # third excitation class at low order
            c3 = VARIANT_CLASSES[variant][2]
            for c in VARIANT_CLASSES[variant][:3]:
                for n in (0, 1):
                    cases.append(("isr", variant, c3, c, n, True))
                    if c != c3:
                        cases.append(("isr", variant, c, c3, n, True))
        cases.append(("bookkeeping", variant))
    cases.sort(key=lambda c: (len(c) > 2 and c[4], c[0], len(c)))
    return cases


def cost(case):
    if case[0] == "bookkeeping":
        return 0.1
    c1, c2, n = case[2], case[3], case[4]
    w = 8 ** n * (sum(c1) + sum(c2)) ** 2
    return w * (2 if case[0] == "transpose" else 1)


def describe(case):
    return {"request": case[0], "args": case[1:]}


def _objects(variant):
    from adcgen import (Operators, GroundState, IntermediateStates,
                        SecularMatrix)
    gs = GroundState(Operators("mp"))
    isr = IntermediateStates(gs, variant)
    return gs, isr, SecularMatrix(isr)


_isr_cache = {}


def _explicit(variant, no, nv, maxorder, n_classes=2):
    key = (variant, no, nv, maxorder, n_classes)
    e = _isr_cache.get(key)
    if e is None:
        fs = fock.FockSpace(no, nv)
        model = Model(Space(no, nv, False))
        e = ISR(fs, model, variant, maxorder, n_classes=n_classes)
        _isr_cache[key] = e
    return e


def _split(asg, cls):
    return asg[:cls[0]], asg[cls[0]:]


def _explicit_table(E, kind, c1, c2, n1, n2, order, subtract_gs, target):
    fs = E.fs
    rng = [fs.occ if gen.space_of(x) == "o" else fs.virt for x in n1 + n2]
    cache = {}
    data = {}
    for asg in itertools.product(*rng):
        a1, a2 = asg[:len(n1)], asg[len(n1):]
        s1, I = E.to_basis(c1, *_split(a1, c1))
        s2, J = E.to_basis(c2, *_split(a2, c2))
        if not s1 * s2:
            continue
        ser = cache.get((I, J))
        if ser is None:
            if kind == "isr":
                ser = E.matrix_series(c1, I, c2, J, subtract_gs)
            else:
                ser = _precursor_series(E, c1, I, c2, J, subtract_gs)
            cache[(I, J)] = ser
        v = ser[order]
        if v.t:
            data[asg] = v * (s1 * s2)
    return Table(target, data)


def _precursor_series(E, c1, I, c2, J, subtract_gs):
    n = E.nmax
    b = E.pre_bra[(c1, I)]
    k = E.pre_ket[(c2, J)]
    h0k = [E.ham.apply("h0", st) if st else {} for st in k]
    h1k = [E.ham.apply("h1", st) if st else {} for st in k]
    out = rspt.series_dot(b, h0k, n)
    if n >= 1:
        for i, v in enumerate(rspt.series_dot(b, h1k, n - 1)):
            out[i + 1] = out[i + 1] + v
    if subtract_gs:
        ov = rspt.series_dot(b, k, n)
        sub = rspt.series_mul(E.energy, ov, n)
        out = [x - y for x, y in zip(out, sub)]
    return out


def _fact(n):
    r = 1
    for k in range(2, n + 1):
        r *= k
    return r


def run_case(case):
    kind = case[0]
    if kind == "bookkeeping":
        return _run_bookkeeping(case)
    _, variant, c1, c2, order, subtract_gs = case[:6]
    perm = case[6] if len(case) > 6 else ""
    gs, isr, m = _objects(variant)
    n1, n2 = _names(c1, 0, perm == "b"), _names(c2, 1, perm == "k")
    block = f"{space_string(c1)},{space_string(c2)}"
    indices = f"{n1},{n2}"
    lib2 = None
    if kind == "isr":
        lib, err = safe_call(m.isr_matrix_block, order, block, indices,
                             subtract_gs)
    elif kind == "precursor":
        lib, err = safe_call(m.precursor_matrix_block, order, block, indices,
                             subtract_gs)
    elif kind == "mvp":
        lib, err = safe_call(m.mvp_block_order, order, space_string(c1),
                             block, n1, subtract_gs)
    elif kind == "transpose":
        lib, err = safe_call(m.isr_matrix_block, order, block, indices,
                             subtract_gs)
        if not err:
            block2 = f"{space_string(c2)},{space_string(c1)}"
            lib2, err = safe_call(m.isr_matrix_block, order, block2,
                                  f"{n2},{n1}", subtract_gs)
    else:
        raise ValueError(kind)
    if err:
        return {"status": "violation", "key": repr(case), "transitions": 1,
                "outcome": "exception", "nontrivial": True,
                "finding": f"{kind}-matrix-exception", "detail": err}
    results = []
    for no, nv in bounds(_TIER[0])["models"][variant]:
        if max(c1[0], c2[0]) > no or max(c1[1], c2[1]) > nv:
            continue
        if (no, nv) in ((3, 3),) and order >= 2 and (c1, c2) != ((1, 1),
                                                                  (1, 1)):
            continue
        key = repr((case, (no, nv)))
        base = {"key": key, "transitions": 1 if lib2 is None else 2}
        info = (f"{kind}: order {order} block '{block}' indices '{indices}' "
                f"variant={variant} subtract_gs={subtract_gs} "
                f"model=({no},{nv})\n")
        try:
            res = _decide(kind, variant, c1, c2, n1, n2, order, subtract_gs,
                          lib, lib2, no, nv)
        except Unsupported as e:
            results.append(dict(base, status="violation",
                                outcome="unsupported", nontrivial=True,
                                finding="operator-or-unknown-node-in-result",
                                detail=info + str(e)))
            continue
        diff, nontrivial = res
        if diff is not None:
            results.append(dict(
                base, status="violation", outcome=f"{kind}:value",
                nontrivial=nontrivial, finding=_finding(kind, c1, c2, order),
                detail=info + "explicit ISR construction vs library: " +
                fmt_diff(diff) + f"\nlibrary expression: {str(lib)[:1200]}"))
            continue
        results.append(dict(
            base, status="ok", nontrivial=nontrivial,
            outcome=f"{kind}:{variant}:{space_string(c1)},{space_string(c2)}:"
            f"n{order}:gs{int(subtract_gs)}:nz{int(nontrivial)}"))
    return results


def _finding(kind, c1, c2, order):
    if kind == "transpose":
        return "matrix-block-not-transpose-of-swapped-block"
    if kind == "mvp":
        return "mvp-differs-from-explicit-matrix-times-vector"
    if kind == "precursor":
        return "precursor-matrix-differs-from-explicit-construction"
    return "isr-matrix-differs-from-explicit-construction"


def _decide(kind, variant, c1, c2, n1, n2, order, subtract_gs, lib, lib2,
            no, nv):
    if kind == "transpose":
        rename = {f"t{n}cc": f"t{n}" for n in range(1, 8)}
        model = Model(Space(no, nv, False), rename=rename,
                      bks_override={"V": 1, "f": 1})
        target = gen.syms(tuple(n1 + n2))
        t1 = evaluate(lib, target, model, expand=True)
        t2 = evaluate(lib2, gen.syms(tuple(n2 + n1)), model, expand=True)
        pos = [t2.axes.index(a) for a in target]
        t2r = Table(target, {tuple(k[i] for i in pos): v
                             for k, v in t2.data.items()})
        return tables_equal(t1, t2r), bool(t1.data)
    third = VARIANT_CLASSES[variant][2:3]
    ncls = 3 if (third and (c1 in third or c2 in third)) else 2
    E = _explicit(variant, no, nv, max(order, 1), ncls)
    model = E.model
    if kind in ("isr", "precursor"):
        target = gen.syms(tuple(n1 + n2))
        lib_t = evaluate(lib, target, model, expand=True)
        ref_t = _explicit_table(E, kind, c1, c2, n1, n2, order, subtract_gs,
                                target)
        return tables_equal(lib_t, ref_t), bool(ref_t.data)
    # ---- mvp: the ket indices of the library expression are contracted
    target = gen.syms(tuple(n1))
    lib_t = evaluate(lib, target, model, expand=True)
    fs = E.fs
    pref = ring.sqrt_atom(1) * 1
    g1 = _fact(c1[0]) * _fact(c1[1])
    g2 = _fact(c2[0]) * _fact(c2[1])
    # (g1*g2)^(-1/2) = sqrt(g1*g2)/(g1*g2)
    pref = ring.sqrt_atom(g1 * g2) * Fraction(1, g1 * g2)
    rng1 = [fs.occ if gen.space_of(x) == "o" else fs.virt for x in n1]
    rng2 = [fs.occ] * c2[0] + [fs.virt] * c2[1]
    cache = {}
    data = {}
    for a1 in itertools.product(*rng1):
        s1, I = E.to_basis(c1, *_split(a1, c1))
        if not s1:
            continue
        acc = Poly()
        for a2 in itertools.product(*rng2):
            occ2, virt2 = _split(a2, c2)
            s2, J = E.to_basis(c2, occ2, virt2)
            if not s2:
                continue
            ser = cache.get((I, J))
            if ser is None:
                ser = cache[(I, J)] = E.matrix_series(c1, I, c2, J,
                                                      subtract_gs)
            v = ser[order]
            if not v.t:
                continue
            y = model.value("amp", "Y", 0, tuple(virt2), tuple(occ2))
            acc.iadd(v * y, s1 * s2)
        if acc.t:
            data[a1] = acc * pref
    ref_t = Table(target, data)
    return tables_equal(lib_t, ref_t), bool(ref_t.data)


def _run_bookkeeping(case):
    _, variant = case
    gs, isr, m = _objects(variant)
    lowest = VARIANT_CLASSES[variant][0]
    res = []
    n_ok = 0
    for n in bounds(_TIER[0])["bookkeeping_adc_orders"]:
        want_spaces = {}
        for mu in range(n // 2 + 1):
            sp = "p" * (lowest[1] + mu) + "h" * (lowest[0] + mu)
            want_spaces[sp] = n - mu
        want_blocks = {}
        sps = list(want_spaces)
        for mu, s1 in enumerate(sps):
            for nu, s2 in enumerate(sps):
                want_blocks[(s1, s2)] = n - mu - nu
        got_spaces, e1 = safe_call(m.max_ptorder_spaces, n)
        got_blocks, e2 = safe_call(m.block_order, n)
        key = repr((case, n))
        if e1 or e2:
            res.append({"status": "violation", "key": key, "transitions": 2,
                        "outcome": "exception", "nontrivial": True,
                        "finding": "bookkeeping-exception",
                        "detail": str(e1 or e2)})
            continue
        if dict(got_spaces) != want_spaces or dict(got_blocks) != want_blocks:
            res.append({"status": "violation", "key": key, "transitions": 2,
                        "outcome": "bookkeeping:value", "nontrivial": True,
                        "finding": "adc-order-bookkeeping-wrong",
                        "detail": f"{variant}-ADC({n}): max_ptorder_spaces="
                        f"{got_spaces} expected {want_spaces}; block_order="
                        f"{got_blocks} expected {want_blocks}"})
            continue
        n_ok += 1
    res.append({"status": "ok", "key": "agg:" + repr(case),
                "nontrivial": True, "outcome": "aggregate", "transitions": 0,
                "agg": {"states": n_ok, "nontrivial": n_ok,
                        "transitions": 2 * n_ok,
                        "outcomes": {f"bookkeeping:{variant}": n_ok}}})
    return res
