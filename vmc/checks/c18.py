"""C18  Printing an expression and importing the text restores the expression.

Explored: every product of 1..2 objects from an object zoo that covers every
printable kind (AntiSymmetricTensor, t- and ADC-amplitudes incl. complex
conjugates, Coulomb integrals, symbolic denominators, NonSymmetricTensor,
deltas, spin-labelled and numbered indices, powers, orbital-energy brackets
with exponents, a / a^dagger, normal-ordered groups) x prefactors (rational,
sqrt, symbol) x sums of 2..3 such terms x assumptions; plus outputs of the
derivation API after expand().
Oracle: r = import(str(e)) with the assumptions re-applied must have the same
value table (free model, exact), the same tensor kind per tensor symbol and
str(r) == str(e).  Expressions with operators are compared structurally.
"""
import itertools

from sympy import S, Rational, sqrt, Symbol, Add, Mul, Pow
from sympy.physics.secondquant import F, Fd, NO

from adcgen import Expr, import_from_sympy_latex
from adcgen.indices import Index
from adcgen.sympy_objects import (AntiSymmetricTensor, SymmetricTensor,
                                  Amplitude, NonSymmetricTensor,
                                  KroneckerDelta, SymbolicTensor)

from .. import gen
from ..model import Model, Space, orb_energy, symbolic_denominator
from ..evalexpr import evaluate, tables_equal, Unsupported
from .common import space_sizes, fmt_diff, safe_call, has_spin

ID = "C18"
CASE_TIMEOUT = 900
CHUNK = 8
RULE = ("state = (expression built from the object zoo, prefactors, "
        "assumptions); non-trivial = the expression contains at least one "
        "tensor / delta / operator with indices")
ASSUMPTIONS = [
    "assumptions re-applied on import are those of the printed expression "
    "(real, sym_tensors, antisym_tensors, target_idx)",
    "SymmetricTensor objects only under the names the library itself produces "
    "(Coulomb integral v, symbolic denominator D)",
]

ASSUME = {"real": True, "sym_tensors": ["v"], "antisym_tensors": ["D"]}
ASSUME_D = {"antisym_tensors": ["D"]}


def _zoo():
    s = gen.sym
    i, j, k, a, b, c, p, q = gen.syms("ijkabcpq")
    ia, jb_, aa, pa = s("i_a"), s("j_b"), s("a_a"), s("p_a")
    i3, a12 = s("i3"), s("a12")
    A, Sy, Am, N = AntiSymmetricTensor, SymmetricTensor, Amplitude, \
        NonSymmetricTensor
    e = lambda x: N("e", (x,))  # noqa
    zoo = {
        "V_oovv": A("V", (i, j), (a, b), 1),
        "V_ovov_spin": A("V", (ia, a), (jb_, b), 1),
        "V_num": A("V", (i3, j), (a12, b), 1),
        "V_gen": A("V", (p, q), (i, a), 1),
        "V_sq": A("V", (i, j), (a, b), 1) ** 2,
        "f_ov": A("f", (i,), (a,), 1),
        "f_gen": A("f", (p,), (q,), 1),
        "d_ov": A("d", (i,), (a,)),
        "d_vo": A("d", (a,), (i,)),
        "d_22": A("d", (i, j), (a, b)),
        "d_0u": A("w", (), (i, j)),
        "d_u0": A("w", (a, b), ()),
        "d_3": A("u", (i, j, k), (a, b, c)),
        "t1": Am("t1", (a,), (i,)),
        "t2": Am("t2", (a, b), (i, j)),
        "t2cc": Am("t2cc", (a, b), (i, j)),
        "t3_2": Am("t3", (a, b, c), (i, j, k)),
        "t_spin": Am("t2", (aa, b), (ia, j)),
        "X1": Am("X", (a,), (i,)),
        "Y2": Am("Y", (a, b), (i, j)),
        "X_ip": Am("X", (a,), (i, j)),
        "Y_cube": Am("Y", (a,), (i,)) ** 3,
        "v_c": Sy("v", (i, a), (j, b), 1),
        "v_spin": Sy("v", (ia, aa), (j, b), 1),
        "D2": Sy("D", (a, b), (i, j), -1),
        "D1": Sy("D", (a,), (i,), -1),
        "D2sq": Sy("D", (a, b), (i, j), -1) ** 2,
        "e_i": e(i),
        "x3": N("x", (i, a, p)),
        "x_spin": N("x", (ia, jb_)),
        "x_num": N("p0", (i3, a12)),
        "k_oo": KroneckerDelta(i, j),
        "k_go": KroneckerDelta(p, i),
        "k_spin": KroneckerDelta(i, ia),
        "k_gg_spin": KroneckerDelta(p, pa),
        "den1": 1 / (e(a) - e(i)),
        "den2": 1 / (e(a) + e(b) - e(i) - e(j)),
        "den2sq": (e(a) + e(b) - e(i) - e(j)) ** -2,
        "den_coeff": 1 / (2 * e(a) - 2 * e(i)),
        "num_br": (e(i) - e(a)),
        "num_br2": (e(i) + e(j) - e(a)) ** 2,
        "sym_c": Symbol("c"),
    }
    return zoo


def _operator_inputs():
    i, j, a, b, p, q = gen.syms("ijabpq")
    A, Am = AntiSymmetricTensor, Amplitude
    return [
        Fd(a) * F(i),
        Fd(p) * F(q) * A("f", (p,), (q,)),
        NO(Fd(a) * F(i)),
        Rational(1, 4) * Am("t1", (a, b), (i, j)) * NO(Fd(a) * Fd(b) * F(j) * F(i)),
        A("V", (p, q), (i, a)) * NO(Fd(p) * Fd(q) * F(a) * F(i)) / 4,
        NO(Fd(a) * F(i)) * NO(Fd(b) * F(j)),
        F(i) * Fd(j) + KroneckerDelta(i, j),
        Fd(gen.sym("i_a")) * F(gen.sym("j_a")),
        A("d", (p,), (q,)) * Fd(p) * F(q) - Rational(1, 2) * Fd(a) * F(i) *
        Am("X", (a,), (i,)),
    ]


PREFS = [S.One, S.NegativeOne, Rational(1, 2), Rational(-3, 4), S(2), sqrt(2),
         sqrt(6) / 2, -sqrt(3) / 3]


def bounds(tier):
    return {"zoo": len(_zoo()), "objects_per_term": 2 if tier == "quick" else 3,
            "prefactors": [str(p) for p in PREFS]}


def generate(tier):
    names = list(_zoo())
    out = [("z", (n,), k) for n in names for k in range(len(PREFS))]
    for n1, n2 in itertools.combinations_with_replacement(names, 2):
        for k in (0, 2, 5):
            out.append(("z", (n1, n2), k))
    if tier == "thorough":
        for tr in itertools.combinations(names, 3):
            out.append(("z", tr, 3))
    # sums
    for k in range(0, len(names) - 2):
        out.append(("s", tuple(names[k:k + 3])))
    for k in range(len(_operator_inputs())):
        out.append(("op", k))
    for k in range(len(DERIV)):
        out.append(("deriv", k))
    return out


def describe(case):
    return {"kind": case[0], "params": case[1:]}


DERIV = ["energy0", "energy1", "energy2", "psi1ket", "psi2bra", "amp1",
         "amp2ph", "h1", "op22", "overlap2", "e2_symbolic"]


def _deriv(name):
    from adcgen import Operators, GroundState
    h = Operators("mp")
    gs = GroundState(h)
    if name.startswith("energy"):
        return gs.energy(int(name[-1])), {"real": False}
    if name == "psi1ket":
        return gs.psi(1, "ket"), {}
    if name == "psi2bra":
        return gs.psi(2, "bra"), {}
    if name == "amp1":
        return gs.amplitude(1, "pphh", "ijab"), {"target_idx": "ijab"}
    if name == "amp2ph":
        return gs.amplitude(2, "ph", "ia"), {"target_idx": "ia"}
    if name == "h1":
        return h.h1[0], {}
    if name == "op22":
        return h.operator(2, 2)[0], {}
    if name == "overlap2":
        return gs.overlap(2), {}
    if name == "e2_symbolic":
        e = Expr(gs.energy(2), real=True)
        return e, {"real": True}
    raise KeyError(name)


def _kinds(expr, bks_names=None):
    """(class, name, bra-ket symmetry) of every tensor object: the declared
    bra-ket symmetry is part of the tensor kind (it decides which index
    tuples are identified).  It is compared for the names whose symmetry the
    re-applied assumptions declare (bks_names)."""
    out = set()
    for o in expr.atoms(SymbolicTensor):
        bks = int(getattr(o, "bra_ket_sym", 0) or 0)
        out.add((type(o).__name__, o.name,
                 bks if bks_names is None or o.name in bks_names else 0))
    return out


def _roundtrip(e0, assumptions, key, nontrivial=True):
    base = {"key": key, "transitions": 2, "nontrivial": nontrivial}
    text = str(e0)
    info = f"expr: {e0.sympy}\ntext: {text}\nassumptions: {assumptions}\n"
    r, err = safe_call(import_from_sympy_latex, text)
    if err:
        return dict(base, status="violation", outcome="import-exception",
                    finding="import-exception", detail=info + err)
    r2, err = safe_call(Expr, r.sympy, **assumptions)
    if err:
        return dict(base, status="violation", outcome="assume-exception",
                    finding="reapply-assumptions-exception",
                    detail=info + err)
    info += f"imported: {r2.sympy}\n"
    # kinds
    declared = set(assumptions.get("sym_tensors") or ()) | \
        set(assumptions.get("antisym_tensors") or ())
    if assumptions.get("real"):
        declared |= {"V", "f"}
    k0, k1 = _kinds(e0.sympy, declared), _kinds(r2.sympy, declared)
    if k0 != k1:
        only0 = sorted(k0 - k1)
        only1 = sorted(k1 - k0)
        finding = "tensor-kind-changed"
        if only0 and all(n == "D" for _, n, _b in only0) and \
                {c for c, _n, _b in only0} != {c for c, _n, _b in only1}:
            finding = "symbolic-denominator-imported-as-antisymmetric"
        return dict(base, status="violation", outcome="kinds",
                    finding=finding,
                    detail=info + f"tensor kinds differ: original only "
                    f"{only0}, imported only {only1}")
    # value or structure
    has_ops = bool(e0.sympy.atoms(F, Fd, NO))
    if has_ops:
        if (e0.sympy - r2.sympy).expand() != 0:
            return dict(base, status="violation", outcome="structure",
                        finding="operator-expression-changed",
                        detail=info + "imported expression differs")
    else:
        idx = e0.sympy.atoms(Index) | r2.sympy.atoms(Index)
        names = {str(s) for s in idx}
        tg = assumptions.get("target_idx")
        if tg is None:
            terms = e0.sympy.args if isinstance(e0.sympy, Add) else (e0.sympy,)
            # all indices free: pointwise comparison is the strongest reading
            target = tuple(sorted(idx, key=lambda s: gen.name_key(str(s))))
        else:
            target = tuple(gen.syms([c for c in tg]))
        no, nv = space_sizes([names])
        if len(target) > 7:
            target = target[:7]
        model = _model(min(no, 3), min(nv, 3), has_spin(names))
        try:
            diff = tables_equal(evaluate(e0.sympy, target, model),
                                evaluate(r2.sympy, target, model))
        except (Unsupported, NotImplementedError) as ex:
            return dict(base, status="violation", outcome="unsupported",
                        finding="oracle-unsupported", detail=info + repr(ex))
        if diff is not None:
            byname = {}
            for s in e0.sympy.atoms(Index):
                byname.setdefault((s.name, s.space, s.spin), set()).add(s)
            clash = any(len(v) > 1 for v in byname.values())
            return dict(base, status="violation", outcome="value",
                        finding=("distinct-indices-with-equal-name" if clash
                                 else "value-changed"),
                        detail=info + "value differs " + fmt_diff(diff))
    t2 = str(r2)
    if t2 != text:
        return dict(base, status="violation", outcome="text",
                    finding="text-not-fixpoint",
                    detail=info + f"printing again gives: {t2}")
    return dict(base, status="ok", outcome="roundtrip-ok" +
                (":ops" if has_ops else ""))


_M = {}


def _model(no, nv, spin):
    key = (no, nv, spin)
    m = _M.get(key)
    if m is None:
        m = Model(Space(no, nv, spin),
                  defs={"e": orb_energy, "D": symbolic_denominator},
                  bks_override={"V": 1, "f": 1, "v": 1},
                  rename={"t2cc": "t2", "t1cc": "t1"})
        _M[key] = m
    return m


def run_case(case):
    kind = case[0]
    zoo = _zoo()
    if kind == "z":
        _, names, pk = case
        term = PREFS[pk]
        for n in names:
            term = term * zoo[n]
        if term is S.Zero or term.is_number:
            return {"status": "skip", "key": repr(case), "outcome": "trivial",
                    "nontrivial": False, "transitions": 0}
        e0 = Expr(term, **ASSUME)
        res = [_roundtrip(e0, ASSUME, repr(case),
                          nontrivial=bool(term.atoms(Index)))]
        if any(getattr(o, "name", None) == "D"
               for o in term.atoms(SymbolicTensor)):
            # complex basis, the bra-ket antisymmetry of the symbolic
            # denominator as the ONLY tensor assumption (what
            # use_symbolic_denominators() leaves on a complex expression)
            e1 = Expr(term, **ASSUME_D)
            res.append(_roundtrip(e1, ASSUME_D, repr((case, "antisym-only")),
                                  nontrivial=True))
        return res
    if kind == "s":
        _, names = case
        expr = S.Zero
        for k, n in enumerate(names):
            expr = expr + PREFS[(k * 3 + 1) % len(PREFS)] * zoo[n] * \
                zoo[names[(k + 1) % len(names)]]
        e0 = Expr(expr, **ASSUME)
        return _roundtrip(e0, ASSUME, repr(case))
    if kind == "op":
        expr = _operator_inputs()[case[1]]
        e0 = Expr(expr)
        return _roundtrip(e0, {}, repr(case))
    name = DERIV[case[1]]
    e, kw = _deriv(name)
    e0 = e if isinstance(e, Expr) else Expr(e)
    e0 = e0.expand()
    ass = {k: v for k, v in e0.assumptions.items()
           if v not in (None, False, ())}
    return _roundtrip(e0, ass, repr(case))
