"""C16  Contraction schemes compute the term and respect their stated bounds.

Explored: grammar terms with 1..4 objects (single tensors, traces, outer
products, disconnected groups, hyper-contractions, powers, deltas) x every
ordering of the target indices (and spins) x max_itmd_dim in {None, 1, 2, 4} x
max_n_simultaneous_contracted in {None, 2, 3}; optimize_contractions and
unoptimized_contraction.
Oracle: a step-by-step interpreter of the returned Contraction list on value
tables built from the term's own objects (axis order = obj.idx): every object
used exactly `exponent` times, every intermediate exactly once, every
contracted index summed exactly once, last step = the term's table with the
axes in the requested order, limits obeyed, scaling recounted, maximal
computational scaling <= that of the single simultaneous contraction.
"""
import itertools

from sympy import S, Mul, Pow

from adcgen import Expr, optimize_contractions, unoptimized_contraction
from adcgen.generate_code.contraction import Contraction
from adcgen.indices import Index
from adcgen.sympy_objects import (SymbolicTensor, KroneckerDelta)

from .. import gen
from ..evalexpr import (evaluate, tables_equal, Table, object_table, contract,
                        Unsupported)
from .common import space_sizes, free_model, fmt_diff, safe_call, has_spin, \
    names_of

ID = "C16"
RULE = ("state = (term, requested target order/spins, limit settings, "
        "optimised or not); non-trivial = the term has >= 2 objects or a "
        "trace / reordering has to be performed")
ASSUMPTIONS = [
    "value tables in the free tensor model with N >= number of index symbols",
    "a RuntimeError 'Could not find a valid contraction scheme' under a "
    "requested limit is a refusal, not a violation",
    "max_itmd_dim applies to intermediates whose index tuple differs from "
    "the requested target tuple (an intermediate with exactly the result's "
    "indices is as large as the result)",
]

SINGLES = ["V_oovv", "W_ovov", "f_ov", "d_gg", "t2", "x_ov", "x_oo", "y_oovv",
           "y_ovv", "k_oo", "k_go", "X1", "Xip", "v_oovv"]
PAIRS = [("V_oovv", "t2"), ("f_ov", "t1"), ("x_ov", "x_ov"), ("x_oo", "x_vv"),
         ("V_ovov", "X1"), ("y_ovv", "x_ov"), ("k_oo", "x_ov"),
         ("d_ov", "d_vo"), ("W_oovv", "Y2"), ("x_oo", "x_oo"), ("t1", "t1"),
         ("f_oo", "Xip"), ("V_oooo", "t2"), ("V_ovvv", "t1"), ("d_gg", "k_go"),
         ("y_oovv", "x_ov"), ("v_oovv", "t2"), ("k_oo", "k_oo"),
         ("d_gg", "d_gg"), ("x_o", "x_ov")]
TRIPLES = [("V_oovv", "t1", "t1"), ("x_ov", "x_ov", "x_oo"),
           ("f_ov", "t1", "k_oo"), ("x_oo", "x_oo", "x_oo"),
           ("d_ov", "t1", "x_vv"), ("V_ovov", "t1", "X1"),
           ("x_o", "x_o", "x_oo"), ("k_oo", "x_ov", "x_ov"),
           ("y_ovv", "x_ov", "x_vv"), ("d_gg", "k_go", "k_gv"),
           ("f_oo", "x_ov", "x_ov")]
QUADS = [("x_ov", "x_ov", "x_oo", "x_vv"), ("f_ov", "t1", "x_oo", "x_oo"),
         ("x_oo", "x_oo", "x_oo", "x_oo"), ("x_o", "x_o", "x_oo", "x_oo"),
         ("x_ov", "x_ov", "x_ov", "x_ov")]


HYPER_QUADS = [("x_o", "x_oo", "x_oo", "x_o"), ("x_o", "x_oo", "x_oo", "x_ov"),
               ("x_o", "x_ov", "x_ov", "x_ov")]


def bounds(tier):
    return {"max_objects": 4, "limits_itmd": [None, 1, 2, 4],
            "limits_simultaneous": [None, 2, 3]}


def generate(tier):
    out = []
    seen = set()

    def add(d):
        t = gen.build_term(d)
        if t is S.Zero or t.is_number:
            return
        key = gen.canonical_key(d, ())
        if key in seen:
            return
        seen.add(key)
        out.append(d)
    for s in SINGLES:
        for d in gen.terms((s,)):
            add(d)
    for s in ["x_ov", "V_oovv", "x_oo"]:
        for d in gen.terms((s,), exponents=[2]):
            add(d)
    for sh in PAIRS:
        for d in gen.terms(sh):
            if max(gen.term_indices(d).values()) > 3:
                continue
            add(d)
    for sh in TRIPLES:
        for d in gen.terms(sh):
            m = max(gen.term_indices(d).values())
            if m > (2 if tier == "quick" else 3):
                continue
            if tier == "quick" and len(gen.einstein_target(d)) > 3:
                continue
            add(d)
    for sh in QUADS:
        for d in gen.terms(sh):
            if max(gen.term_indices(d).values()) > 2:
                continue
            if len(gen.einstein_target(d)) > (2 if tier == "quick" else 4):
                continue
            add(d)
    # hyper-contractions over four objects: indices on three objects, so
    # that a sub-group of the objects can share an index with an object
    # outside the group (A_i B_ij C_ij D_j ...)
    for sh in HYPER_QUADS:
        for d in gen.terms(sh):
            if max(gen.term_indices(d).values()) > 3:
                continue
            if len(gen.einstein_target(d)) > (1 if tier == "quick" else 3):
                continue
            add(d)
    # spin labelled
    spin_pool = {"o": ["i_a", "j_a", "i_b"], "v": ["a_a", "a_b"], "g": ["p_a"]}
    for sh in [("x_ov", "x_ov"), ("f_ov", "t1")]:
        for names in gen.index_patterns(gen.slot_spaces(sh), pools=spin_pool):
            parts = gen.split_names(sh, names)
            d = ("1", tuple((s, 1, p) for s, p in zip(sh, parts)))
            add(d)
    return [("t", d) for d in out]


def describe(case):
    return {"term": str(gen.build_term(case[1]))}


def _objects(term):
    """[(base sympy object, exponent)] of the tensor / delta factors"""
    out = []
    for f in (term.args if isinstance(term, Mul) else (term,)):
        if f.is_number:
            continue
        ex = 1
        b = f
        if isinstance(f, Pow):
            b, ex = f.args[0], int(f.args[1])
        out.append((b, ex))
    return out


def _scaling_of(contracted, target):
    def cnt(lst):
        c = {"general": 0, "virt": 0, "occ": 0}
        for s in lst:
            c[s.space] += 1
        return c
    cc, ct = cnt(contracted), cnt(target)
    comp = {k: cc[k] + ct[k] for k in cc}
    return (sum(comp.values()), comp["general"], comp["virt"], comp["occ"]), \
        (len(target), ct["general"], ct["virt"], ct["occ"])


def _interpret(term, contractions, target, model, wrapped_objs):
    """step-by-step evaluation; returns (final table, problems list)"""
    problems = []
    ranges = model.space.idx_range
    pool = []   # [(longname, idx tuple, table, remaining uses)]
    for obj, (b, ex) in wrapped_objs:
        axes, data = object_table(b, model, ranges)
        pool.append([obj.longname(), tuple(obj.idx), (axes, data), ex])
    results = {}
    used_contr = {}
    summed = {}
    for c in contractions:
        tabs = []
        all_idx = set()
        for name, indices in zip(c.names, c.indices):
            indices = tuple(indices)
            all_idx.update(indices)
            if Contraction.is_contraction(name):
                if name not in results:
                    problems.append(f"{name} used before it was computed")
                    return None, problems
                used_contr[name] = used_contr.get(name, 0) + 1
                rt = results[name]
                if tuple(rt.axes) != indices:
                    problems.append(f"{name} is used with indices {indices} "
                                    f"but was computed with {rt.axes}")
                    return None, problems
                tabs.append((rt.axes, rt.data))
            else:
                hit = None
                for p in pool:
                    if p[0] == name and p[1] == indices and p[3] > 0:
                        hit = p
                        break
                if hit is None:
                    problems.append(f"operand {name}{indices} is not an "
                                    "(unused) object of the term")
                    return None, problems
                hit[3] -= 1
                tabs.append(hit[2])
        ctarget = tuple(c.target)
        ccontr = tuple(c.contracted)
        if set(ctarget) | set(ccontr) != all_idx or set(ctarget) & set(ccontr):
            problems.append(f"step {c.contraction_name}: target {ctarget} and "
                            f"contracted {ccontr} do not partition the "
                            f"operand indices {sorted(map(str, all_idx))}")
            return None, problems
        for s in ccontr:
            summed[s] = summed.get(s, 0) + 1
        res = contract(tabs, ctarget, ranges)
        results[c.contraction_name] = res
        # scaling
        comp, mem = _scaling_of(ccontr, ctarget)
        sc = c.scaling
        got_c = (sc.computational.total, sc.computational.general,
                 sc.computational.virt, sc.computational.occ)
        got_m = (sc.memory.total, sc.memory.general, sc.memory.virt,
                 sc.memory.occ)
        if got_c != comp or got_m != mem:
            problems.append(f"step {c.contraction_name}: reported scaling "
                            f"{got_c}/{got_m}, recount {comp}/{mem}")
    for p in pool:
        if p[3] != 0:
            problems.append(f"object {p[0]}{p[1]} not used exactly as often "
                            f"as its exponent (remaining {p[3]})")
    for c in contractions[:-1]:
        if used_contr.get(c.contraction_name, 0) != 1:
            problems.append(f"intermediate {c.contraction_name} used "
                            f"{used_contr.get(c.contraction_name, 0)} times")
    tset = set(target)
    term_idx = term.atoms(Index)
    for s in term_idx - tset:
        if summed.get(s, 0) != 1:
            problems.append(f"contracted index {s} summed "
                            f"{summed.get(s, 0)} times")
    for s in summed:
        if s in tset:
            problems.append(f"target index {s} is summed")
    return results[contractions[-1].contraction_name], problems


def run_case(case):
    desc = case[1]
    term = gen.build_term(desc)
    names = sorted(names_of(desc), key=gen.name_key)
    no, nv = space_sizes([names])
    model = free_model(no, nv, has_spin(names), tag="c16")
    results = []
    expr0 = Expr(term)
    ein = gen.sympy_einstein_target(term)
    n_obj = sum(ex for _, ex in _objects(term))
    # requested targets
    reqs = [None]
    if 1 < len(ein) <= 4:
        reqs += [p for p in itertools.permutations(ein)]
    elif len(ein) == 1:
        reqs += [tuple(ein)]
    cnt = gen.sympy_index_counts(term)
    rep = sorted((str(s) for s, c in cnt.items() if c >= 2), key=gen.name_key)
    explicit_extra = []
    for n in rep[:1]:
        explicit_extra.append(tuple(ein) + (n,))
        explicit_extra.append((n,) + tuple(ein))
    limits = [(None, None), (2, None), (None, 2), (4, 3), (1, None)]
    if n_obj <= 2:
        limits = [(None, None), (1, 2)]
    for req in reqs + explicit_extra:
        explicit = req in explicit_extra
        if req is None:
            tstr = tspin = None
            tnames = ein
            e0 = expr0
        else:
            tnames = tuple(req)
            tstr = "".join(gen.parse_idx(n)[0] for n in tnames)
            spins = [gen.parse_idx(n)[1] for n in tnames]
            tspin = "".join(spins) if all(spins) and spins else None
            if any(spins) and not all(spins):
                continue
            e0 = Expr(term, target_idx=list(gen.syms(tnames))) if explicit \
                else expr0
        target = gen.syms(tnames)
        t_adc = e0.terms[0]
        wrapped = [(o, (o.base, o.exponent)) for o in t_adc.objects
                   if not o.sympy.is_number]
        # the contraction scheme does not include the numerical prefactor
        ref = evaluate(term.as_coeff_Mul()[1], target, model)
        all_idx = term.atoms(Index)
        for opt, (mi, ms) in [(True, lm) for lm in limits] + \
                [(False, (None, None))]:
            key = repr((gen.canonical_key(desc, ()), req, explicit, opt, mi,
                        ms))
            base = {"key": key, "transitions": 1,
                    "nontrivial": n_obj >= 2 or req is not None}
            info = (f"{'optimize_contractions' if opt else 'unoptimized'}("
                    f"{term}, target_indices={tstr!r}, target_spin={tspin!r},"
                    f" max_itmd_dim={mi}, max_n_simultaneous_contracted={ms})"
                    f" explicit_target_idx={explicit}\n")
            if opt:
                out, err = safe_call(optimize_contractions, t_adc, tstr,
                                     tspin, mi, ms)
            else:
                out, err = safe_call(unoptimized_contraction, t_adc, tstr,
                                     tspin)
            if err:
                if err.startswith("RuntimeError: Could not find a valid") \
                        and (mi is not None or ms is not None):
                    results.append(dict(base, status="ok", nontrivial=False,
                                        outcome="refused-under-limit"))
                    continue
                finding = "optimize_contractions-exception"
                if n_obj == 1 and "not iterable" in err:
                    finding = "single-tensor-term-TypeError"
                results.append(dict(base, status="violation",
                                    outcome="exception", finding=finding,
                                    detail=info + err))
                continue
            if not isinstance(out, list) or not out or \
                    not all(isinstance(c, Contraction) for c in out):
                results.append(dict(base, status="violation",
                                    outcome="not-a-list",
                                    finding="result-not-a-contraction-list",
                                    detail=info + f"returned {out!r}"))
                continue
            info += "scheme: " + "; ".join(
                f"{c.contraction_name}: {c.names}{c.indices} -> {c.target} "
                f"sum {c.contracted}" for c in out) + "\n"
            final, problems = _interpret(term, out, target, model, wrapped)
            if not problems:
                if tuple(out[-1].target) != tuple(target):
                    problems.append(f"last step has target {out[-1].target}, "
                                    f"requested {target}")
                else:
                    diff = tables_equal(ref, Table(target, final.data))
                    if diff is not None:
                        problems.append("step-by-step value differs from the "
                                        "term " + fmt_diff(diff))
            # limits
            if opt and not problems:
                for c in out[:-1]:
                    # an intermediate that already carries exactly the
                    # requested target indices has the dimensionality of the
                    # result itself and is documented as exempt ("outer"
                    # contraction)
                    if tuple(c.target) == tuple(target):
                        continue
                    if mi is not None and len(c.target) > mi:
                        problems.append(f"{c.contraction_name} has "
                                        f"{len(c.target)} target indices > "
                                        f"max_itmd_dim={mi}")
                for c in out:
                    if ms is not None and len(c.names) > ms:
                        problems.append(f"{c.contraction_name} contracts "
                                        f"{len(c.names)} objects > {ms}")
                mx = max(c.scaling.computational.total for c in out)
                if mx > len(all_idx):
                    problems.append(f"maximal computational scaling N^{mx} "
                                    f"exceeds the single simultaneous "
                                    f"contraction N^{len(all_idx)}")
            if problems:
                results.append(dict(base, status="violation",
                                    outcome="scheme-wrong",
                                    finding="contraction-scheme-wrong",
                                    detail=info + "\n".join(problems)))
            else:
                results.append(dict(base, status="ok",
                                    outcome=f"{'opt' if opt else 'unopt'}:"
                                    f"{len(out)}steps"))
    return results
