"""C01  Wick evaluation equals the Fermi-vacuum expectation value.

Part A (words).  Every operator word over {a^dagger, a} x {occupied, virtual,
general index names} up to a length bound and up to renaming of indices within
a space, times every placement of disjoint contiguous normal-ordered groups
(length >= 2), times every subset C of its indices declared *contracted* (the
contracted indices are carried by one coefficient tensor c_C), times
simplify_kronecker_deltas in {False, True}, times a family of block-exclusion
rule sets on c.  Oracle: for EVERY assignment of all index symbols to spin
orbitals the expectation value <Phi0| word |Phi0> is computed by applying the
operators to the reference bit string (normal-ordered groups reordered with
the permutation sign, vmc/fock.py); the library result is evaluated by the
reference interpreter with every index that is not a target summed over its
space.  N_occ = N_virt = number of index symbols that can land in the space,
so the verdict holds for orbital spaces of every size.

Part B (sandwiches).  <Phi0| G_bra O_1 [O_2] G_ket |Phi0> with G normal-ordered
excitation / de-excitation strings (reference, singles, doubles, ip/ea-like,
triples in the thorough tier), O operators with formal (antisymmetric) matrix
elements and general indices: f a+a, 1/4 V a+a+aa, d-operators with up to
(2,2) creators/annihilators - the shapes every derivation of the library is
made of.  Oracle: the operators are applied to determinants in Fock space.
With the rule sets of the RE partitioning (and others) the result with delta
evaluation must equal the Fock-space value in the model whose forbidden
tensor blocks vanish (semantic reading of 'remove exactly the terms that
contain an excluded block'), and always the rule-free result filtered by an
independent re-implementation of the block test (syntactic reading).
"""
import itertools

from sympy import S, Mul, Add, Pow, Rational
from sympy.physics.secondquant import F, Fd, NO

from adcgen import wicks
from adcgen.rules import Rules
from adcgen.indices import Index
from adcgen.sympy_objects import (NonSymmetricTensor, AntiSymmetricTensor,
                                  KroneckerDelta)

from .. import gen, ring, fock
from ..ring import Poly, ZERO, ONE
from ..model import Space, Model
from ..evalexpr import (evaluate, tables_equal, Table, Unsupported, kind_of,
                        split_terms)
from .common import fmt_diff, safe_call

ID = "C01"
CASE_TIMEOUT = 3000
RULE = ("part A: state = (operator word up to renaming, normal-ordered "
        "groups, contracted subset, delta flag, rule set); non-trivial = the "
        "expectation value is non-zero for at least one orbital assignment. "
        "part B: state = (bra string, operators, ket string, delta flag, rule "
        "set); non-trivial = the value table is non-zero")
ASSUMPTIONS = [
    "Fermi vacuum = determinant with all occupied orbitals filled; general "
    "indices run over occupied and virtual orbitals",
    "indices of the result that are not target indices of the input are "
    "summed over their space (the auxiliary delta_{q,a'} emitted for general "
    "indices then means 'q is virtual')",
    "domain restriction from the property: every contracted index occurs on "
    "a tensor; with delta evaluation requested the input must be readable by "
    "the Einstein convention (targets occur exactly once)",
    "part A: N_occ = N_virt = number of index symbols that can land in the "
    "space (verdict valid for every orbital space); part B: model sizes in "
    "bounds()",
]

NAMES = {"o": "ijklmn", "v": "abcdef", "g": "pqrstuvw"}


def bounds(tier):
    if tier == "quick":
        return {"A_max_len": 4, "A_names_per_space": 2,
                "A_len5_6": "none",
                "A_rules": "only with delta evaluation, <= 5 rule sets per "
                           "contracted subset",
                "A_subsets_len4": "contracted subsets of size 0, 1, n-1, n; "
                                  "{none, all} and no rule sets when a "
                                  "general index is inside a normal-ordered "
                                  "group",
                "B_models": [[2, 2]], "B_max_class": "doubles"}
    return {"A_max_len": 4, "A_names_per_space": 3,
            "A_len5_6": "length 5 and balanced length 6 (<= 1 general operator) "
                        "over names i,j,a,b,p, all groupings, contracted "
                        "subsets {none, all}, no rule sets",
            "B_models": [[2, 2], [3, 3], [3, 2], [2, 3]],
            "B_max_class": "triples"}


# ------------------------------------------------------------------ part A
def _words(length, max_names):
    """all words of the given length up to renaming within a space:
    (kind, name) tuples; max_names: dict space -> max distinct names"""
    out = []
    for spaces in itertools.product("ovg", repeat=length):
        for names in gen.index_patterns(spaces, pools=NAMES):
            cnt = {}
            ok = True
            for sp, n in zip(spaces, names):
                cnt.setdefault(sp, set()).add(n)
                if len(cnt[sp]) > max_names[sp]:
                    ok = False
                    break
            if not ok:
                continue
            for kinds in itertools.product("+-", repeat=length):
                out.append(tuple(zip(kinds, names)))
    return out


def _groupings(n):
    """all sets of disjoint contiguous spans (start, end) with end-start>=2"""
    res = []

    def rec(pos, cur):
        if pos >= n:
            res.append(tuple(cur))
            return
        rec(pos + 1, cur)
        for end in range(pos + 2, n + 1):
            rec(end, cur + [(pos, end)])
    rec(0, [])
    # sort: fewer groups first
    res.sort(key=lambda g: (len(g), g))
    return res


_TIER = ["quick"]


def generate(tier):
    _TIER[0] = tier
    cases = []
    if tier == "quick":
        mx = {"o": 2, "v": 2, "g": 2}
        for L in (1, 2, 3, 4):
            for w in _words(L, mx):
                cases.append(("A", w))
    else:
        mx = {"o": 3, "v": 3, "g": 3}
        for L in (1, 2, 3, 4):
            for w in _words(L, mx):
                cases.append(("A", w))
        mx = {"o": 2, "v": 2, "g": 1}
        for L in (5, 6):
            for w in _words(L, mx):
                if L == 6 and (sum(1 for k, _ in w if k == "+") != 3 or
                               sum(1 for _, n in w if n == "p") > 1):
                    continue    # balanced words, at most one general operator
                cases.append(("A", w, "reduced"))
    cases.extend(_sandwich_cases(tier))
    return cases


def describe(case):
    if case[0] == "A":
        return {"part": "A", "word": " ".join(
            ("a+_" if k == "+" else "a_") + n for k, n in case[1])}
    return {"part": "B", "bra": case[1], "ops": case[2], "ket": case[3],
            "model": case[4]}


def _op(kind, name):
    s = gen.sym(name)
    return Fd(s) if kind == "+" else F(s)


def _build_word(word, groups, C):
    """sympy product; returns None if sympy folds it to something that is not
    the intended product of operators (counted separately)"""
    factors = []
    pos = 0
    gmap = {g[0]: g for g in groups}
    while pos < len(word):
        g = gmap.get(pos)
        if g is None:
            factors.append(_op(*word[pos]))
            pos += 1
        else:
            inner = Mul(*[_op(*w) for w in word[g[0]:g[1]]])
            factors.append(NO(inner))
            pos = g[1]
    expr = Mul(*factors)
    if C:
        expr = NonSymmetricTensor("c", gen.syms(C)) * expr
    return expr


def _space_letter(name):
    return gen.space_of(name)


def _word_expectation(word, groups, names, fs, rng):
    """dict full assignment (tuple in the order of `names`) -> +-1"""
    pos = {n: k for k, n in enumerate(names)}
    # segments with index positions
    segs = []
    p = 0
    gmap = {g[0]: g for g in groups}
    while p < len(word):
        g = gmap.get(p)
        if g is None:
            segs.append(("ops", [word[p]]))
            p += 1
        else:
            segs.append(("no", list(word[g[0]:g[1]])))
            p = g[1]
    out = {}
    for asg in itertools.product(*[rng[_space_letter(n)] for n in names]):
        ss = [(k, [(kind, asg[pos[n]]) for kind, n in ops]) for k, ops in segs]
        v = fs.expect_ref(ss)
        if v:
            out[asg] = v
    return out


def _rule_sets_a(C):
    """rule sets for the coefficient tensor c with contracted names C"""
    if not C:
        return [None]
    sp = [_space_letter(n) for n in C]
    orig = "".join(sp)
    gpos = [k for k, s in enumerate(sp) if s == "g"]
    blocks = []
    for choice in itertools.product("ov", repeat=len(gpos)):
        b = list(sp)
        for k, c in zip(gpos, choice):
            b[k] = c
        blocks.append("".join(b))
    sets = [None, (orig,)]
    for b in blocks:
        if (b,) not in sets:
            sets.append((b,))
    if len(blocks) >= 2:
        sets.append((blocks[0], blocks[-1]))
    return sets


def _filter_blocks(expr, forbidden):
    """independent re-implementation of the block test on raw sympy terms"""
    kept = []
    for term in split_terms(S(expr).expand()):
        drop = False
        for fac in Mul.make_args(term):
            base = fac.args[0] if isinstance(fac, Pow) else fac
            k = kind_of(base)
            if k is None:
                continue
            idx = base.idx if k == "nonsym" else \
                tuple(base.upper) + tuple(base.lower)
            block = "".join(s.space[0] for s in idx)
            if base.name in forbidden and block in forbidden[base.name]:
                drop = True
        if not drop:
            kept.append(term)
    return Add(*kept)


_model_cache = {}


def _model(no, nv, tag="", defs=None):
    key = (no, nv, tag)
    m = _model_cache.get(key)
    if m is None:
        m = Model(Space(no, nv, False), defs=defs)
        _model_cache[key] = m
    return m


def _run_word(case):
    word = case[1]
    reduced = len(case) > 2
    L = len(word)
    names = []
    for _, n in word:
        if n not in names:
            names.append(n)
    no = sum(1 for n in names if _space_letter(n) in "og") or 1
    nv = sum(1 for n in names if _space_letter(n) in "vg") or 1
    fs = fock.FockSpace(no, nv)
    model = _model(no, nv)
    rng = {"o": fs.occ, "v": fs.virt, "g": fs.occ + fs.virt}
    occurrences = {n: sum(1 for _, m in word if m == n) for n in names}
    results = []
    agg = {"states": 0, "nontrivial": 0, "transitions": 0, "outcomes": {}}

    def ok(outcome, nontrivial, trans):
        agg["states"] += 1
        agg["nontrivial"] += 1 if nontrivial else 0
        agg["transitions"] += trans
        agg["outcomes"][outcome] = agg["outcomes"].get(outcome, 0) + 1

    for groups in _groupings(L):
        if any(word[k] == word[k + 1] for s_, e_ in groups
               for k in range(s_, e_ - 1)):
            # two adjacent equal operators inside a normal-ordered group:
            # sympy cannot even construct the input (the group is zero)
            ok("skip:equal-operators-in-group", False, 0)
            continue
        # (two adjacent equal BARE operators are folded into a power by
        # sympy; that is still a legal input with value 0)
        expv = _word_expectation(word, groups, names, fs, rng)
        nontrivial = bool(expv)
        subsets = [C for r in range(len(names) + 1)
                   for C in itertools.combinations(names, r)]
        if reduced:
            # reduced variant set of the long words: the two extreme
            # contracted subsets only
            subsets = [subsets[0], subsets[-1]]
        elif _TIER[0] == "quick" and L >= 4:
            if _general_in_no(word, groups):
                # general index inside a normal-ordered group (sympy's split
                # into occupied / virtual parts makes these calls expensive):
                # the two extreme contracted subsets only
                subsets = [subsets[0], subsets[-1]]
            else:
                # none, every single index, all but one, all
                subsets = [C for C in subsets
                           if len(C) <= 1 or len(C) >= len(names) - 1]
        for C in subsets:
            if True:
                T = tuple(n for n in names if n not in C)
                # reference table over T
                pos = {n: k for k, n in enumerate(names)}
                ref = {}
                for asg, v in expv.items():
                    tk = tuple(asg[pos[n]] for n in T)
                    coef = model.value("nonsym", "c", 0,
                                       tuple(asg[pos[n]] for n in C), ()) \
                        if C else ONE
                    acc = ref.get(tk)
                    if acc is None:
                        ref[tk] = coef * v
                    else:
                        ref[tk] = acc + coef * v
                ref = {k: v for k, v in ref.items() if v.t}
                target = gen.syms(T)
                ref_t = Table(target, ref)
                for delta in (False, True):
                    if delta and any(occurrences[n] != 1 for n in T):
                        # not readable by the Einstein convention
                        ok("skip:not-einstein", False, 0)
                        continue
                    expr = _build_word(word, groups, C)
                    key = repr((word, groups, C, delta))
                    info = (f"input: {expr}   contracted={C} targets={T} "
                            f"simplify_kronecker_deltas={delta}\n")
                    base = {"key": key, "transitions": 1,
                            "nontrivial": nontrivial}
                    res, err = safe_call(wicks, expr, None, delta)
                    if err:
                        results.append(dict(
                            base, status="violation", outcome="exception",
                            finding=_classify_exception(word, groups, err),
                            detail=info + err))
                        continue
                    try:
                        out_t = evaluate(res, target, model)
                    except Unsupported as e:
                        results.append(dict(
                            base, status="violation", outcome="unsupported",
                            finding="operator-left-in-result",
                            detail=info + f"output: {res}\n{e}"))
                        continue
                    diff = tables_equal(ref_t, out_t)
                    if diff is not None:
                        results.append(dict(
                            base, status="violation", outcome="value",
                            finding=_classify_value(word, groups, C, T, delta),
                            detail=info + f"output: {res}\nexpected (Fock "
                            "space) vs library: " + fmt_diff(diff)))
                        continue
                    nterms = len(split_terms(S(res).expand())) \
                        if res != 0 else 0
                    ok(f"len{L}:groups{len(groups)}:terms{min(nterms, 9)}"
                       f":d{int(delta)}", nontrivial, 1)
                    # ---- rules on the coefficient tensor
                    if not C or res == 0 or reduced:
                        continue
                    if _TIER[0] == "quick" and _general_in_no(word, groups):
                        continue
                    rule_sets = _rule_sets_a(C)
                    if _TIER[0] == "quick":
                        # quick tier: rules only together with delta
                        # evaluation and at most four rule sets
                        if not delta:
                            continue
                        if len(rule_sets) > 5:
                            rule_sets = rule_sets[:3] + rule_sets[-2:]
                    for rs in rule_sets:
                        if rs is None:
                            continue
                        forb = {"c": list(rs)}
                        rres, err = safe_call(wicks, expr, Rules(forb), delta)
                        rkey = repr((word, groups, C, delta, rs))
                        rbase = {"key": rkey, "transitions": 1,
                                 "nontrivial": nontrivial}
                        if err:
                            results.append(dict(
                                rbase, status="violation",
                                outcome="exception",
                                finding="rules-exception",
                                detail=info + f"rules={forb}\n" + err))
                            continue
                        want = _filter_blocks(res, forb)
                        try:
                            a = evaluate(want, target, model)
                            b = evaluate(rres, target, model)
                        except Unsupported as e:
                            results.append(dict(
                                rbase, status="violation",
                                outcome="unsupported",
                                finding="operator-left-in-result",
                                detail=info + str(e)))
                            continue
                        diff = tables_equal(a, b)
                        if diff is not None:
                            results.append(dict(
                                rbase, status="violation", outcome="rules",
                                finding="rules-wrong-terms-removed",
                                detail=info + f"rules={forb}\nrule-free "
                                f"result: {res}\nwith rules: {rres}\nexpected:"
                                f" {want}\n" + fmt_diff(diff)))
                            continue
                        removed = want != res
                        ok(f"rules:removed{int(bool(removed))}", nontrivial, 1)
    results.append({"status": "ok", "key": "agg:" + repr(case),
                    "nontrivial": True, "outcome": "aggregate",
                    "transitions": 0, "agg": agg})
    return results


def _adjacent_equal(word, groups):
    in_group = set()
    for s, e in groups:
        in_group.update(range(s, e))
    for k in range(len(word) - 1):
        if word[k] == word[k + 1] and k not in in_group and \
                k + 1 not in in_group:
            return True
    return False


def _general_in_no(word, groups):
    return any(_space_letter(word[k][1]) == "g" for s, e in groups
               for k in range(s, e))


def _classify_exception(word, groups, err):
    if _general_in_no(word, groups) and "has no attribute 'space'" in err:
        return "general-index-in-normal-ordered-group"
    if _adjacent_equal(word, groups) and "has no attribute" in err:
        return "adjacent-equal-operators"
    return "wicks-exception"


def _classify_value(word, groups, C, T, delta):
    if delta and any(_space_letter(n) == "g" for n in T):
        return "delta-evaluation-with-general-target-index"
    return "value-differs-from-fock-space"


# ------------------------------------------------------------------ part B
# excitation strings: (n_virt, n_occ); ket = NO(a+_a.. a_i..), bra = NO(a+_i.. a_a..)
CLASSES_Q = [(0, 0), (1, 1), (2, 2), (0, 1), (1, 0), (1, 2), (2, 1)]
CLASSES_T = CLASSES_Q + [(3, 3), (0, 2), (2, 0)]
# operators: (name, n_create, n_annihilate, bra_ket_sym)
OPS1 = [("f", 1, 1, 1), ("V", 2, 2, 0), ("d", 1, 1, 0), ("d", 2, 2, 0),
        ("d", 1, 0, 0), ("d", 0, 1, 0), ("d", 2, 1, 0), ("d", 1, 2, 0),
        ("d", 0, 2, 0), ("d", 2, 0, 0), ("W", 2, 2, 1)]

RULESETS_B = {
    "none": None,
    "re_h0": {"f": ["ov", "vo"],
              "V": ["ooov", "oovv", "ovvv", "ovoo", "vvoo", "vvov"]},
    "re_h1": {"f": ["oo", "vv"], "V": ["oooo", "ovov", "vvvv"]},
    "d_ov": {"d": ["ov", "oovv", "o", "oov", "oo"]},
    "W": {"W": ["oovv", "vvoo", "ovov"]},
}


def _sandwich_cases(tier):
    classes = CLASSES_Q if tier == "quick" else CLASSES_T
    models = [(2, 2)] if tier == "quick" else [(2, 2), (3, 3), (3, 2), (2, 3)]
    cases = []
    seen = set()
    for model in models:
        for bra in classes:
            for ket in classes:
                oplists = [()] + [(o,) for o in OPS1]
                # two-operator products (the order-2 shapes)
                two = [(("V", 2, 2, 0), ("V", 2, 2, 0)),
                       (("f", 1, 1, 1), ("V", 2, 2, 0)),
                       (("d", 1, 1, 0), ("V", 2, 2, 0)),
                       (("V", 2, 2, 0), ("d", 1, 1, 0)),
                       (("d", 1, 0, 0), ("d", 0, 1, 0)),
                       (("d", 2, 1, 0), ("V", 2, 2, 0))]
                oplists += two
                for ops in oplists:
                    # particle number balance
                    nc = bra[1] + ket[0] + sum(o[1] for o in ops)
                    na = bra[0] + ket[1] + sum(o[2] for o in ops)
                    if nc != na:
                        continue
                    nops = 2 * (bra[0] + bra[1] + ket[0] + ket[1]) // 2 + \
                        sum(o[1] + o[2] for o in ops)
                    size = bra[0] + bra[1] + ket[0] + ket[1]
                    if model != (2, 2):
                        # larger models: only where (2,2) is too small to
                        # show all index patterns, and not the biggest tables
                        if max(bra + ket) < 2 or size > 8:
                            continue
                        if max(bra + ket) >= 3 and size > 8:
                            continue
                    if max(bra + ket) >= 3 and (size > 8 or len(ops) > 1):
                        continue
                    if len(ops) == 2 and size > 6:
                        continue
                    if nops > 14:
                        continue
                    if tier == "quick" and (nops > 12 or (
                            len(ops) == 2 and nops > 10 and
                            (bra, ket) not in (((0, 0), (2, 2)),
                                               ((2, 2), (0, 0)),
                                               ((1, 1), (1, 1))))):
                        continue
                    key = (bra, ops, ket, model)
                    if key in seen:
                        continue
                    seen.add(key)
                    cases.append(("B", bra, ops, ket, model))
    # simplest first
    cases.sort(key=lambda c: (c[4], sum(c[1]) + sum(c[3]), len(c[2])))
    return cases


def _exc_indices(cls, which):
    """names of the excitation string: ket uses a.. / i.., bra d.. / l.."""
    nv, no = cls
    if which == "ket":
        return tuple("abc"[:nv]), tuple("ijk"[:no])
    return tuple("def"[:nv]), tuple("lmn"[:no])


def _build_sandwich(bra, ops, ket):
    """returns (expr, target names, op descriptions)"""
    kv, ko = _exc_indices(ket, "ket")
    bv, bo = _exc_indices(bra, "bra")
    factors = []
    # bra: de-excitation string  a+_l a+_m ... a_e a_d
    bra_ops = [("+", n) for n in bo] + [("-", n) for n in reversed(bv)]
    ket_ops = [("+", n) for n in kv] + [("-", n) for n in reversed(ko)]
    if bra_ops:
        inner = Mul(*[_op(*o) for o in bra_ops])
        factors.append(NO(inner) if len(bra_ops) > 1 else inner)
    gen_names = iter("pqrstuvw")
    opdesc = []
    coeff = S.One
    for name, nc, na, bks in ops:
        up = tuple(next(gen_names) for _ in range(nc))
        lo = tuple(next(gen_names) for _ in range(na))
        t = AntiSymmetricTensor(name, gen.syms(up), gen.syms(lo), bks)
        pref = Rational(1, _fact(nc) * _fact(na))
        coeff = coeff * pref * t
        string = [("+", n) for n in up] + [("-", n) for n in reversed(lo)]
        factors.append(Mul(*[_op(*o) for o in string]))
        opdesc.append((name, bks, up, lo, pref, string))
    if ket_ops:
        inner = Mul(*[_op(*o) for o in ket_ops])
        factors.append(NO(inner) if len(ket_ops) > 1 else inner)
    expr = coeff * Mul(*factors)
    target = bo + bv + kv + ko
    return expr, target, bra_ops, ket_ops, opdesc


def _fact(n):
    r = 1
    for k in range(2, n + 1):
        r *= k
    return r


def _apply_operator(fs, model, desc, state, zero_blocks=None):
    """sum over all orbital assignments of the general indices of
    pref * t[up, lo] * string |state>"""
    name, bks, up, lo, pref, string = desc
    allorb = fs.occ + fs.virt
    out = {}
    nup = len(up)
    pref = ring.const(pref)
    for asg in itertools.product(allorb, repeat=len(up) + len(lo)):
        u, l = asg[:nup], asg[nup:]
        coef = model.value("anti", name, bks, u, l)
        if not coef.t:
            continue
        if zero_blocks and name in zero_blocks:
            # canonical block of this element as the library names it:
            # upper and lower sorted (occ < virt), bra-ket swap for bks != 0
            bu = "".join(sorted("o" if fs.is_occ(p) else "v" for p in u))
            bl = "".join(sorted("o" if fs.is_occ(p) else "v" for p in l))
            # (rule sets for bra-ket symmetric tensors are closed under the
            # bra-ket swap, so no canonical choice has to be replicated)
            if bu + bl in zero_blocks[name]:
                continue
        amap = dict(zip(up + lo, asg))
        ops = [(k, amap[n]) for k, n in string]
        st = fock.apply_word(ops, state)
        if st:
            fock.add_into(out, st, coef * pref)
    return out


def _det_of_string(fs, ops, names, asg, as_bra):
    """(sign, det) of  NO(ops)|ref>  (ket)  or of  (<ref|NO(ops))^dagger"""
    amap = dict(zip(names, asg))
    word = [(k, amap[n]) for k, n in ops]
    if len(word) > 1:
        r = fs.normal_order(word)
        if r is None:
            return None
        sign, word = r
    else:
        sign = 1
    if as_bra:
        word = fock.dagger(word)
    r = fock.apply_word_det(word, fs.ref)
    if r is None:
        return None
    return sign * r[0], r[1]


def _run_sandwich(case):
    _, bra, ops, ket, (no, nv) = case
    fs = fock.FockSpace(no, nv)
    results = []
    expr, tnames, bra_ops, ket_ops, opdesc = _build_sandwich(bra, ops, ket)
    target = gen.syms(tnames)
    rng = {"o": fs.occ, "v": fs.virt}
    kv, ko = _exc_indices(ket, "ket")
    bv, bo = _exc_indices(bra, "bra")
    bnames, knames = bo + bv, kv + ko
    names_used = {o[0] for o in ops}
    for rname, forb in RULESETS_B.items():
        if forb is not None and not (set(forb) & names_used):
            continue
        model = _model(no, nv, "B")
        # ---- Fock-space value table (semantic reading of the rules)
        cache = {}
        ref = {}
        for kasg in itertools.product(*[rng[_space_letter(n)]
                                        for n in knames]):
            r = _det_of_string(fs, ket_ops, knames, kasg, False)
            if r is None:
                continue
            sk, dk = r
            st = cache.get(dk)
            if st is None:
                st = {dk: ONE}
                for desc in reversed(opdesc):
                    st = _apply_operator(fs, model, desc, st, forb)
                cache[dk] = st
            if not st:
                continue
            for basg in itertools.product(*[rng[_space_letter(n)]
                                            for n in bnames]):
                r = _det_of_string(fs, bra_ops, bnames, basg, True)
                if r is None:
                    continue
                sb, db = r
                v = st.get(db)
                if v is None:
                    continue
                v = v * (sb * sk)
                if v.t:
                    ref[basg + kasg] = v
        ref_t = Table(target, ref)
        nontrivial = bool(ref)
        for delta in (False, True):
            key = repr((bra, ops, ket, (no, nv), rname, delta))
            base = {"key": key, "transitions": 1, "nontrivial": nontrivial}
            info = (f"input: {expr}\nrules={forb} "
                    f"simplify_kronecker_deltas={delta} model=({no},{nv})\n")
            rules = Rules(forb) if forb else None
            res, err = safe_call(wicks, expr, rules, delta)
            if err:
                results.append(dict(base, status="violation",
                                    outcome="exception",
                                    finding="wicks-exception-sandwich",
                                    detail=info + err))
                continue
            try:
                out_t = evaluate(res, target, model)
            except Unsupported as e:
                results.append(dict(base, status="violation",
                                    outcome="unsupported",
                                    finding="operator-left-in-result",
                                    detail=info + str(e)))
                continue
            nterms = len(split_terms(S(res).expand())) if res != 0 else 0
            if forb is None:
                diff = tables_equal(ref_t, out_t)
                if diff is not None:
                    results.append(dict(
                        base, status="violation", outcome="value",
                        finding="sandwich-value-differs-from-fock-space",
                        detail=info + f"output: {res}\nexpected (Fock space) "
                        "vs library: " + fmt_diff(diff)))
                    continue
                results.append(dict(base, status="ok", outcome=(
                    f"B:ops{len(ops)}:terms{min(nterms, 20)}:d{int(delta)}")))
                continue
            # ---- with rules: syntactic reading always
            free, err = safe_call(wicks, expr, None, delta)
            if err:
                continue    # reported by the rule-free run
            want = _filter_blocks(free, forb)
            a = evaluate(want, target, model)
            diff = tables_equal(a, out_t)
            if diff is not None:
                results.append(dict(
                    base, status="violation", outcome="rules",
                    finding="rules-wrong-terms-removed",
                    detail=info + f"rule-free result: {free}\nwith rules: "
                    f"{res}\n" + fmt_diff(diff)))
                continue
            # semantic reading where every rule tensor of the rule-free
            # result carries occupied/virtual indices only
            semantic = delta and not _general_on(free, set(forb))
            if semantic:
                diff = tables_equal(ref_t, out_t)
                if diff is not None:
                    results.append(dict(
                        base, status="violation", outcome="rules-semantic",
                        finding="rules-result-differs-from-block-zeroed-model",
                        detail=info + f"output: {res}\nexpected (Fock space, "
                        "forbidden blocks zero) vs library: " + fmt_diff(diff)))
                    continue
            results.append(dict(base, status="ok", outcome=(
                f"B:rules:{rname}:sem{int(semantic)}:"
                f"removed{int(want != free)}:d{int(delta)}")))
    return results


def _general_on(expr, names):
    for t in S(expr).atoms(AntiSymmetricTensor):
        if t.name in names and any(s.space[0] == "g"
                                   for s in t.upper + t.lower):
            return True
    return False


def run_case(case):
    if case[0] == "A":
        return _run_word(case)
    return _run_sandwich(case)
