"""C09  Kronecker-delta evaluation preserves the value and keeps index
information.

Explored: terms  (1..3 deltas) x (1..2 tensors)  over an index pool with
occupied / virtual / general indices with and without spin; every multiset of
non-vanishing deltas, every choice of tensor index tuples (subsets of the
indices on the deltas plus one spectator), every target set (Einstein and
every explicit subset).  Precondition of the property enforced by the
generator: every contracted index occurs on at least one non-delta object.
Oracle: value table in the spin-resolved free model (exact); a vanished index
must have a surviving index with at least as much (space, spin) information in
its delta-component; target indices must survive.
"""
import itertools

from sympy import S, Mul, Add

from adcgen import evaluate_deltas
from adcgen.indices import Index
from adcgen.sympy_objects import (NonSymmetricTensor, AntiSymmetricTensor,
                                  KroneckerDelta)

from .. import gen
from ..evalexpr import evaluate, tables_equal, Unsupported
from .common import space_sizes, free_model, fmt_diff, safe_call, has_spin

ID = "C09"
RULE = ("state = (multiset of deltas, tensor index tuples, target set); "
        "non-trivial = at least one delta links two different indices of "
        "which at least one is contracted (so evaluation has to decide)")
ASSUMPTIONS = [
    "spin-resolved free tensor model with N_spatial >= number of index "
    "symbols per space (valid for all orbital spaces)",
    "domain restriction from the property: every contracted index occurs on "
    "at least one non-delta object (others are counted as skipped)",
]

POOL_Q = ["i", "j", "i_a", "i_b", "a", "a_a", "p", "q", "p_a"]
POOL_T = ["i", "j", "k", "i_a", "j_a", "i_b", "a", "b", "a_a", "a_b",
          "p", "q", "p_a", "p_b"]


def bounds(tier):
    return {"pool": POOL_Q if tier == "quick" else POOL_T, "max_deltas": 3,
            "max_tensor_rank": 3, "tensors": 2}


def _info(n):
    nm, spin = gen.parse_idx(n)
    return gen.space_of(n), spin


def _delta_ok(a, b):
    (s1, p1), (s2, p2) = _info(a), _info(b)
    if s1 != "g" and s2 != "g" and s1 != s2:
        return False
    if p1 and p2 and p1 != p2:
        return False
    return a != b


def generate(tier):
    pool = POOL_Q if tier == "quick" else POOL_T
    pairs = [(a, b) for a, b in itertools.combinations(pool, 2)
             if _delta_ok(a, b)]
    out = []
    maxd = 3
    for nd in range(1, maxd + 1):
        for ds in itertools.combinations_with_replacement(pairs, nd):
            if len(set(ds)) < nd:
                continue
            on_delta = sorted({n for d in ds for n in d}, key=gen.name_key)
            if nd == 3:
                # chains / stars only: the deltas must be connected
                if not _connected(ds):
                    continue
                if tier == "quick" and len(on_delta) > 4:
                    continue
            if nd == 2 and tier == "quick" and len(on_delta) > 4 and \
                    not _connected(ds):
                continue
            spect = [n for n in pool if n not in on_delta][:1]
            cands = on_delta + spect
            # tensor x: every subset (<=3) of the candidates, sorted tuple;
            # optional second tensor y with the complement of the delta
            # indices so that every index can be covered
            for r in range(0, min(3, len(cands)) + 1):
                for T in itertools.combinations(cands, r):
                    rest = tuple(n for n in on_delta if n not in T)
                    ys = [()]
                    if rest and len(rest) <= 3:
                        ys.append(rest)
                    for Y in ys:
                        if not T and not Y:
                            continue
                        out.append((ds, T, Y, "nonsym"))
            # antisymmetric tensor carrying the delta indices (sign handling)
            occ = [n for n in on_delta if _info(n)[0] == "o"]
            if len(occ) >= 2:
                out.append((ds, tuple(occ[:2]), tuple(on_delta), "anti"))
            # symmetric tensor with bra-ket antisymmetry of rank (3,3): after
            # the substitution upper and lower hold the same indices with
            # different multiplicities (not forced to zero)
            plain_occ = [n for n in on_delta if _info(n) == ("o", "")]
            if len(plain_occ) >= 3:
                a, b, c = plain_occ[:3]
                d = plain_occ[3] if len(plain_occ) > 3 else c
                out.append((ds, (a, c, b), (a, b, d), "sym3"))
    # rank-(3,3) symmetric tensor with bra-ket antisymmetry over i,j,k,l
    # (independent of the pool): every set of 1..2 deltas between them
    quad = ["i", "j", "k", "l"]
    qpairs = list(itertools.combinations(quad, 2))
    for nd in (1, 2):
        for ds in itertools.combinations(qpairs, nd):
            for T, Y in ((("i", "k", "j"), ("i", "j", "l")),
                         (("i", "j", "k"), ("j", "k", "l"))):
                out.append((tuple(ds), T, Y, "sym3"))
    return out


def _connected(ds):
    comp = {}
    nodes = {n for d in ds for n in d}
    parent = {n: n for n in nodes}

    def find(x):
        while parent[x] != x:
            x = parent[x]
        return x
    for a, b in ds:
        parent[find(a)] = find(b)
    return len({find(n) for n in nodes}) == 1


def describe(case):
    ds, T, Y, kind = case
    return {"deltas": ds, "x_indices": T, "y_indices": Y, "tensor": kind}


def _build(case):
    ds, T, Y, kind = case
    term = S.One
    for a, b in ds:
        term = term * KroneckerDelta(gen.sym(a), gen.sym(b))
    if kind == "nonsym":
        if T:
            term = term * NonSymmetricTensor("x", gen.syms(T))
        if Y:
            term = term * NonSymmetricTensor("y", gen.syms(Y))
    elif kind == "sym3":
        from adcgen.sympy_objects import SymmetricTensor
        term = term * SymmetricTensor("s", gen.syms(T), gen.syms(Y), -1)
    else:
        term = term * AntiSymmetricTensor("d", gen.syms(T), ())
        term = term * NonSymmetricTensor("y", gen.syms(Y))
    return term


def run_case(case):
    ds, T, Y, kind = case
    term = _build(case)
    if term is S.Zero or term.is_number:
        return {"status": "skip", "key": repr(case), "outcome": "zero",
                "nontrivial": False, "transitions": 0}
    names = sorted({n for d in ds for n in d} | set(T) | set(Y),
                   key=gen.name_key)
    non_delta = set(T) | set(Y)
    results = []
    # target sets: Einstein + every explicit subset
    ein = gen.sympy_einstein_target(term)
    tsets = [None] + [tuple(c) for r in range(len(names) + 1)
                      for c in itertools.combinations(names, r)]
    for tg in tsets:
        tnames = ein if tg is None else tg
        contracted = [n for n in names if n not in tnames]
        key = repr((case, tg))
        if any(n not in non_delta for n in contracted):
            results.append({"status": "skip", "key": key, "nontrivial": False,
                            "outcome": "precondition", "transitions": 0})
            continue
        results.append(_one(case, term, ds, names, tg, tnames, key))
    return results


def _one(case, term, ds, names, tg, tnames, key):
    base = {"key": key, "transitions": 1}
    target = gen.syms(tnames)
    arg = None if tg is None else list(target)
    out, err = safe_call(evaluate_deltas, term, arg)
    info = f"input: {term}  target={tnames} explicit={tg is not None}\n"
    nontrivial = any(a not in tnames or b not in tnames for a, b in ds)
    if err:
        return dict(base, status="violation", outcome="exception",
                    nontrivial=nontrivial, finding="evaluate_deltas-exception",
                    detail=info + err)
    info += f"output: {out}\n"
    no, nv = space_sizes([names])
    model = free_model(no, nv, True, tag="c09")
    try:
        tin = evaluate(term, target, model)
        tout = evaluate(out, target, model)
    except Unsupported as e:
        return dict(base, status="violation", outcome="unsupported",
                    nontrivial=nontrivial, finding="oracle-unsupported",
                    detail=info + str(e))
    diff = tables_equal(tin, tout)
    n_d_out = len(out.atoms(KroneckerDelta)) if hasattr(out, "atoms") else 0
    outcome = f"deltas {len(ds)}->{n_d_out}"
    if diff is not None:
        return dict(base, status="violation", outcome=outcome + ":value",
                    nontrivial=nontrivial, finding="value-changed",
                    detail=info + "value changed " + fmt_diff(diff))
    out_idx = {str(s) for s in out.atoms(Index)} if hasattr(out, "atoms") \
        else set()
    # targets survive
    lost = [t for t in tnames if t in names and t not in out_idx]
    if lost and not (out is S.Zero):
        return dict(base, status="violation", outcome=outcome + ":target-lost",
                    nontrivial=nontrivial, finding="target-index-removed",
                    detail=info + f"target indices {lost} were removed")
    # no new indices
    new = out_idx - set(names)
    if new:
        return dict(base, status="violation", outcome=outcome + ":new-index",
                    nontrivial=nontrivial, finding="new-index",
                    detail=info + f"unknown indices {new} in the output")
    # information order within delta components
    comp = {n: n for n in names}

    def find(x):
        while comp[x] != x:
            x = comp[x]
        return x
    for a, b in ds:
        comp[find(a)] = find(b)
    for v in names:
        if v in out_idx or out is S.Zero:
            continue
        sv, pv = _info(v)
        ok = False
        for w in names:
            if w in out_idx and find(w) == find(v):
                sw, pw = _info(w)
                if (sw == sv or sv == "g") and (pw == pv or not pv):
                    ok = True
        if not ok:
            return dict(base, status="violation", outcome=outcome + ":info",
                        nontrivial=nontrivial, finding="information-lost",
                        detail=info + f"index {v} vanished but no surviving "
                        "index of its delta component carries at least its "
                        "space and spin information")
    return dict(base, status="ok", outcome=outcome, nontrivial=nontrivial)
