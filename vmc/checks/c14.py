"""C14  Removing or differentiating by a tensor undoes a contraction exactly.

Explored: every expression of a small grammar

    term  =  prefactor x (1..3 occurrences of the removable tensor N, each in
             any block of N's family, exponent 1..3)
                       x (0..2 remainder tensors: generic NonSymmetricTensor
                          x / y, or an Amplitude u with permutational symmetry)

with EVERY index pattern of the slots (set partitions per (space, spin): this
produces contracted, repeated, hyper-contracted and target indices on the
removed tensor) within the bounds returned by bounds(tier); families:
AntiSymmetricTensor with bra-ket symmetry 0 / +1 / -1 of rank (1,1), (2,2),
(2,1), (1,2), (3,3); SymmetricTensor (bra-ket 0 / +1 / -1); plain and ADC
Amplitudes X / Y of rank (0,1) (1,0) (1,1) (1,2) (2,1) (2,2) (3,3);
NonSymmetricTensor of rank 1..4; blocks with general and with spin-labelled
indices; Einstein and explicit target sets; sums of two such terms (same /
different block, a term without the tensor, folded bra-ket partners, different
removal order).  For every case remove_tensor(expr, N) and derivative(expr, N)
of the real adcgen are called.

Oracle (reference interpreter vmc.evalexpr: exact polynomial identities in the
formal tensor entries):

  remove_tensor:  value(E)  ==  sum_keys  prod_b w_b *
                     value( prod_b N_b(slot indices) * R_key )      [targets of E]
      with w_b = 1/|G0_b| (G0 = permutations of equal (space, spin) slots
      within upper / within lower), x2 for an off-diagonal block of a tensor
      with bra-ket (anti)symmetry, 1/sqrt|G0| for ADC amplitude vectors;
      slot indices = the lowest index names of the space that are no target
      names (documented 'minimal indices'), blocks of a key with several
      blocks in ANY order (the order of removal is not documented);
      and R_key as function of (targets, slots) is (anti)symmetric under the
      symmetry of every removed block (incl. bra-ket for diagonal blocks).
  derivative:     coefficient of eps in E(N + eps*eta), eta a formal tensor of
      the class / bra-ket symmetry of N (computed on the *input descriptor* by
      the product rule)  ==  sum_blocks value( eta_b(tensor indices) * D_b )
      where the tensor indices are the minimised indices of the occurrence
      (targets kept, others -> lowest non-target names).

Violations are classified by root cause (finding keys, see SPECIAL,
ORDER_FINDING, AMBIGUOUS_FINDING) or, if none applies, by the class of the
removed tensor and the features of the input.
"""
import itertools
import math
import warnings
from fractions import Fraction

from sympy import S, Add, Mul, Pow, Rational, sqrt

from adcgen import Expr, remove_tensor, derivative
from adcgen.indices import Index
from adcgen.sympy_objects import (AntiSymmetricTensor, NonSymmetricTensor,
                                  SymmetricTensor, Amplitude, KroneckerDelta)

from .. import gen, ring
from ..ring import Poly, ZERO, ONE
from ..evalexpr import (evaluate, tables_equal, Table, add_tables, scale_table,
                        Unsupported, split_terms)
from .common import free_model, fmt_diff, safe_call

ID = "C14"
RULE = ("state = (expression descriptor: prefactor, occurrences of the "
        "removable tensor with block / exponent / index pattern, remainder "
        "tensors; removed name; target set; function remove_tensor | "
        "derivative); non-trivial = the removed tensor has permutational or "
        "bra-ket symmetry, occurs more than once / with an exponent, or "
        "carries a target or repeated index, or the expression has >= 2 terms")
ASSUMPTIONS = [
    "free tensor model; N_occ / N_virt = number of index symbols per space of "
    "the largest term that is evaluated, but not more than (symbols of the "
    "input term + 1): slot indices of the re-contraction are tied to indices "
    "of the input by Kronecker deltas, so every monomial of a correct result "
    "fits; for inputs the verdict therefore holds for every orbital-space "
    "size, a wrong extra term is only missed if ALL its monomials need more "
    "than one additional orbital",
    "re-contraction is the literal product  tensor(slot indices) * returned "
    "block expression, summed over every index that is no target of the "
    "input; slot indices follow the documented minimal-index convention "
    "(lowest names of the space that are no target names, in the index order "
    "of the tensor: upper,lower - lower,upper for Amplitudes)",
    "for a key with several blocks the blocks may be assigned to the slot "
    "groups in any order (existential)",
    "derivative: an occurrence carrying target / repeated indices is "
    "re-contracted with a variation carrying the same (minimised) indices",
    "explicit target sets always contain the indices that occur once "
    "(explicit targets are documented as a supplement of the Einstein "
    "convention)",
    "the classes of adcgen.sympy_objects and the Expr container constructor "
    "are trusted (checked by C06 / C08)",
]
CASE_TIMEOUT = 300
CHUNK = 2

warnings.filterwarnings("ignore")

# --------------------------------------------------------------------------
# tensor table:  tname -> (class, bra-ket symmetry)
# --------------------------------------------------------------------------
TSPEC = {
    "d": ("anti", 0), "f": ("anti", 1), "a": ("anti", -1),
    "W": ("anti", 0), "V": ("anti", 1), "A": ("anti", -1),
    "v": ("sym", 1), "s": ("sym", 0), "b": ("sym", -1),
    "t2": ("amp", 0), "X": ("amp", 0), "Y": ("amp", 0), "u": ("amp", 0),
    "z": ("nonsym", 0), "x": ("nonsym", 0), "y": ("nonsym", 0),
}
ADC = ("X", "Y")
ETA = "eta"

BASE = {"o": "ijklmno", "v": "abcdefgh", "g": "pqrstuvw"}
_SPACE_LETTER = {"occ": "o", "virt": "v", "general": "g"}


def _pool(key):
    sp, spin = key[0], key[1:]
    names = list(BASE[sp]) + [c + "1" for c in BASE[sp]]
    return [n + ("_" + spin if spin else "") for n in names]


POOLS = {k: _pool(k) for k in ("o", "v", "g", "oa", "ob", "va", "vb")}


# families: fam id -> (tname, [(n_upper, block), ...]); block = string of
# space letters (constructor order: upper then lower; nonsym: all slots) or a
# tuple of slot keys with spin ('oa', 'vb', ...)
SPIN_W = ("oa", "ob", "va", "vb")
FAM2_Q = {      # tensors with <= 2 slots
    "d": ("d", [(1, "oo"), (1, "ov"), (1, "vo"), (1, "vv"), (1, "gg"),
                (1, "go")]),
    "f": ("f", [(1, "oo"), (1, "ov"), (1, "vo"), (1, "vv"), (1, "gg")]),
    "a": ("a", [(1, "oo"), (1, "ov"), (1, "vo")]),
    "X1": ("X", [(1, "vo"), (0, "o")]),
    "Y1": ("Y", [(1, "vo")]),
    "t1": ("t2", [(1, "vo")]),
    "z2": ("z", [(1, "o"), (2, "oo"), (2, "ov")]),
    "dspin": ("d", [(1, ("oa", "oa")), (1, ("oa", "ob")), (1, ("oa", "va"))]),
}
FAM2_T = {
    "fspin": ("f", [(1, ("oa", "oa")), (1, ("oa", "ob")), (1, ("oa", "va"))]),
    "b1": ("b", [(1, "ov"), (1, "oo")]),
    "X1b": ("X", [(1, "v")]),
}
FAM4_Q = {      # tensors with 3 / 4 slots
    "W": ("W", [(2, "oovv"), (2, "ooov"), (2, "oooo")]),
    "V": ("V", [(2, "oovv"), (2, "ovov"), (2, "vvoo")]),
    "A": ("A", [(2, "oovv")]),
    "v": ("v", [(2, "oovv")]),
    "s": ("s", [(2, "oovv")]),
    "X2": ("X", [(2, "vvoo"), (1, "voo")]),
    "Y2": ("Y", [(2, "vvoo")]),
    "t2": ("t2", [(2, "vvoo")]),
    "z4": ("z", [(3, "oov")]),
    "d21": ("d", [(2, "ooo")]),
}
FAM4_T = {
    "W": ("W", [(2, "oovv"), (2, "ooov"), (2, "oooo"), (2, "ovov"),
                (2, "vvoo"), (2, "ovvv"), (2, "gggg")]),
    "V": ("V", [(2, "oovv"), (2, "ovov"), (2, "oooo"), (2, "vvoo"),
                (2, "ooov")]),
    "A": ("A", [(2, "oovv"), (2, "ovov"), (2, "oooo"), (2, "vvoo")]),
    "v": ("v", [(2, "oovv"), (2, "ovov"), (2, "oooo")]),
    "s": ("s", [(2, "oovv"), (2, "oooo")]),
    "b": ("b", [(2, "oovv"), (2, "oooo")]),
    "X2": ("X", [(2, "vvoo"), (1, "voo"), (2, "vvo")]),
    "Y2": ("Y", [(2, "vvoo")]),
    "t2": ("t2", [(2, "vvoo")]),
    "z4": ("z", [(3, "oov"), (4, "oovv"), (3, "ooo")]),
    "d21": ("d", [(2, "ooo"), (1, "ovv")]),
    "Wspin": ("W", [(2, SPIN_W), (2, ("oa", "oa", "va", "va")),
                    (2, ("oa", "ob", "oa", "ob"))]),
    "Vspin": ("V", [(2, SPIN_W), (2, ("oa", "ob", "oa", "ob"))]),
    "X2spin": ("X", [(2, ("va", "vb", "oa", "ob")),
                     (2, ("va", "va", "oa", "oa"))]),
}
# two occurrences of one name with 3 / 4 slots (and mixed ranks)
PAIRS4_Q = [("W", (2, "oovv"), (2, "vvoo")), ("V", (2, "oovv"), (2, "oovv")),
            ("X", (2, "vvoo"), (2, "vvoo")), ("X", (1, "vo"), (2, "vvoo")),
            ("X", (0, "o"), (1, "voo"))]
PAIRS4_T = [("V", (2, "ovov"), (2, "ovov")), ("W", (2, "ooov"), (2, "ovov")),
            ("X", (1, "voo"), (1, "voo")), ("t2", (2, "vvoo"), (2, "vvoo")),
            ("v", (2, "oovv"), (2, "oovv")), ("A", (2, "oovv"), (2, "oovv")),
            ("V", (2, "ooov"), (2, "ooov")), ("V", (2, "oooo"), (2, "oovv")),
            ("Y", (1, "vo"), (2, "vvoo")), ("W", (2, SPIN_W), (2, SPIN_W)),
            ("X", (2, ("va", "vb", "oa", "ob")), (1, ("va", "oa")))]
# rank (3,3): only fully contracted with a generic / an antisymmetric remainder
TRIPLES = [("W", 3, "ooovvv"), ("V", 3, "ooovvv"), ("X", 3, "vvvooo"),
           ("t2", 3, "vvvooo"), ("W", 3, "oovoov")]


def _fams(tier):
    f2 = dict(FAM2_Q)
    f4 = dict(FAM4_Q)
    if tier != "quick":
        f2.update(FAM2_T)
        f4.update(FAM4_T)
    return f2, f4


def bounds(tier):
    quick = tier == "quick"
    f2, f4 = _fams(tier)

    def show(f):
        return {k: [v[0], [[nu, b if isinstance(b, str) else ".".join(b)]
                           for nu, b in v[1]]] for k, v in f.items()}
    return {
        "families_rank<=2": show(f2), "families_rank3-4": show(f4),
        "pairs_rank3-4": [[t, list(map(str, a)), list(map(str, b))]
                          for t, a, b in
                          (PAIRS4_Q + ([] if quick else PAIRS4_T))],
        "rank33": [] if quick else [list(t) for t in TRIPLES],
        "occurrences_per_term": 3, "max_exponent": 2 if quick else 3,
        "remainder_objects": 2, "terms_per_expression": 2,
        "distinct_index_names_per_space_and_term": 4 if quick else 5,
        "einstein_targets_per_term": 4,
        "distinct_general_index_names_per_term": 3,
        "index_patterns": "all set partitions of the slots of one (space, "
                          "spin); the slots of a generic remainder tensor "
                          "carry their names in non-decreasing pool order "
                          "(w.l.o.g.: a generic tensor with permuted slots is "
                          "the same generic tensor)",
        "target_sets": "Einstein; the Einstein set given explicitly; the "
                       "Einstein set + one index occurring >= 2 times (<= 3 "
                       "choices)",
    }



# --------------------------------------------------------------------------
# building sympy objects from descriptors
# --------------------------------------------------------------------------
def build_obj(tname, nu, names, name_override=None):
    cls, bks = TSPEC[tname]
    idx = gen.syms(names)
    nm = name_override or tname
    if cls == "nonsym":
        return NonSymmetricTensor(nm, idx)
    k = {"anti": AntiSymmetricTensor, "sym": SymmetricTensor,
         "amp": Amplitude}[cls]
    return k(nm, idx[:nu], idx[nu:], bks)


PREFS = {"1": S.One, "-1": S.NegativeOne, "2": S(2), "-1/2": Rational(-1, 2),
         "1/4": Rational(1, 4), "sqrt2": sqrt(2), "-3": S(-3),
         "1/3": Rational(1, 3)}
PREF_CYCLE = ["1", "-1/2", "2", "1/4", "-1", "sqrt2", "-3", "1/3"]


def build_term(tdesc, replace=None):
    """sympy product of a term descriptor (pref, objs).  replace=(k, factor)
    replaces ONE power of object k by the tensor eta (product rule)."""
    pref, objs = tdesc
    res = PREFS[pref]
    for k, (tname, nu, ex, names) in enumerate(objs):
        o = build_obj(tname, nu, names)
        if o is S.Zero:
            return S.Zero
        if replace is not None and replace == k:
            eta = build_obj(tname, nu, names, ETA)
            res = res * ex * eta
            if ex > 1:
                res = res * Pow(o, ex - 1)
        else:
            res = res * (Pow(o, ex) if ex != 1 else o)
    return res


def einstein_names(tdesc):
    cnt = {}
    for tname, nu, ex, names in tdesc[1]:
        for n in names:
            cnt[n] = cnt.get(n, 0) + abs(ex)
    return tuple(sorted((n for n, c in cnt.items() if c == 1),
                        key=gen.name_key)), cnt


def all_names(tdesc):
    out = []
    for tname, nu, ex, names in tdesc[1]:
        for n in names:
            if n not in out:
                out.append(n)
    return out


# --------------------------------------------------------------------------
# the documented index-name convention (own implementation)
# --------------------------------------------------------------------------
def _name_stream(space):
    base = BASE[space]
    for c in base:
        yield c
    k = 1
    while True:
        for c in base:
            yield f"{c}{k}"
        k += 1


def lowest_names(keys, taken):
    """for the slot keys (space letter + spin) in order: the lowest names of
    the space (with that spin) that are not in `taken`; updates taken"""
    out = []
    for key in keys:
        sp, spin = key[0], key[1:]
        for n in _name_stream(sp):
            full = n + ("_" + spin if spin else "")
            if full not in taken:
                taken.add(full)
                out.append(full)
                break
    return out


def key_of_name(n):
    nm, spin = gen.parse_idx(n)
    return gen.space_of(n) + spin


def idx_order_names(obj, cls):
    """index names of a constructed sympy tensor in adcgen's 'idx' order:
    upper+lower (lower+upper for amplitudes), read from the object so that the
    canonical form chosen by the constructor is respected"""
    if cls == "nonsym":
        syms = tuple(obj.idx)
    elif cls == "amp":
        syms = tuple(obj.lower) + tuple(obj.upper)
    else:
        syms = tuple(obj.upper) + tuple(obj.lower)
    return [_name_of(s) for s in syms]


def _name_of(s):
    return s.name + ("_" + s.spin if s.spin else "")


def minimised(names, targets):
    """minimal indices of a tensor occurrence: targets stay, every other index
    -> lowest non-target name of its (space, spin), first occurrence first"""
    taken = set(targets)
    ren = {}
    out = []
    for n in names:
        if n in targets:
            out.append(n)
            continue
        if n not in ren:
            ren[n] = lowest_names([key_of_name(n)], taken)[0]
        out.append(ren[n])
    return tuple(out)


def block_of(names):
    """(space string, spin string) of index names"""
    sp = "".join(gen.space_of(n) for n in names)
    spin = "".join(gen.parse_idx(n)[1] or "n" for n in names)
    return sp, spin


def rm_block_str(names):
    sp, spin = block_of(names)
    return sp if set(spin) <= {"n"} else f"{sp}_{spin}"


def parse_rm_block(b):
    """'oovv' / 'oovv_abab' -> slot keys"""
    if "_" in b:
        sp, spin = b.split("_")
    else:
        sp, spin = b, "n" * len(b)
    if len(sp) != len(spin) or not set(sp) <= set("ovg") or \
            not set(spin) <= set("nab"):
        raise ValueError(b)
    return [s + ("" if p == "n" else p) for s, p in zip(sp, spin)]


# --------------------------------------------------------------------------
# weights and symmetry generators of a block
# --------------------------------------------------------------------------
def split_slots(cls, nu, n):
    """positions (in idx order) of the upper and the lower slots"""
    if cls == "nonsym":
        return list(range(n)), []
    if cls == "amp":       # idx = lower + upper
        nl = n - nu
        return list(range(nl, n)), list(range(nl))
    return list(range(nu)), list(range(nu, n))


def g0_size(cls, nu, keys):
    if cls == "nonsym":
        return 1
    up, lo = split_slots(cls, nu, len(keys))
    g = 1
    for part in (up, lo):
        cnt = {}
        for p in part:
            cnt[keys[p]] = cnt.get(keys[p], 0) + 1
        for c in cnt.values():
            g *= math.factorial(c)
    return g


def is_diagonal(cls, nu, keys):
    up, lo = split_slots(cls, nu, len(keys))
    return sorted(keys[p] for p in up) == sorted(keys[p] for p in lo)


def rm_weight(tname, nu, keys):
    cls, bks = TSPEC[tname]
    g = g0_size(cls, nu, keys)
    if tname in ADC:
        w = ring.sqrt_atom(g) * Fraction(1, g)
    else:
        w = ring.const(Fraction(1, g))
    if bks != 0 and cls != "nonsym" and not is_diagonal(cls, nu, keys):
        w = w * 2
    return w


def generators(tname, nu, keys):
    """[(slot permutation as list new->old position, sign)]"""
    cls, bks = TSPEC[tname]
    if cls == "nonsym":
        return []
    n = len(keys)
    up, lo = split_slots(cls, nu, n)
    sign = 1 if cls == "sym" else -1
    out = []
    for part in (up, lo):
        for p, q in itertools.combinations(part, 2):
            if keys[p] == keys[q]:
                perm = list(range(n))
                perm[p], perm[q] = q, p
                out.append((perm, sign))
    if bks != 0 and len(up) == len(lo) and \
            [keys[p] for p in up] == [keys[p] for p in lo]:
        perm = list(range(n))
        for p, q in zip(up, lo):
            perm[p], perm[q] = q, p
        out.append((perm, bks))
    return out


# --------------------------------------------------------------------------
# generation
# --------------------------------------------------------------------------
def _pool_pos(n):
    return POOLS[key_of_name(n)].index(n)


def _patterns(keys, distinct=(), ordered=(), max_distinct=None):
    """all index patterns of the slot keys (names per slot).
    distinct: (start, stop) slot ranges whose names must be pairwise distinct;
    ordered: (start, stop) ranges in which the names of one (space, spin) must
    be in non-decreasing pool order"""
    cnt = {}
    for k in keys:
        cnt[k] = cnt.get(k, 0) + 1
    if max(cnt.values(), default=0) > 9:
        raise ValueError(f"too many slots of one space: {keys}")
    for names in gen.index_patterns(keys, pools=POOLS,
                                    max_distinct=max_distinct):
        if any(len(set(names[a:b])) < b - a for a, b in distinct):
            continue
        bad = False
        for a, b in ordered:
            last = {}
            for k, n in zip(keys[a:b], names[a:b]):
                p = _pool_pos(n)
                if last.get(k, -1) > p:
                    bad = True
                    break
                last[k] = p
            if bad:
                break
        if bad:
            continue
        yield names


def _rem_ranges(start, rem):
    out = []
    for _, ks in rem:
        out.append((start, start + len(ks)))
        start += len(ks)
    return out


def _spaces_sorted(keys):
    return sorted(keys, key=lambda k: ("ovg".index(k[0]), k[1:]))


def _term(pref, occs, rem, names):
    """occs: [(tname, nu, ex, nslots)], rem: [(tname, keys)]"""
    objs = []
    k = 0
    for tname, nu, ex, n in occs:
        objs.append((tname, nu, ex, tuple(names[k:k + n])))
        k += n
    for tname, keys in rem:
        n = len(keys)
        objs.append((tname, n, 1, tuple(names[k:k + n])))
        k += n
    return (pref, tuple(objs))


def _u_remainder(tname, nu, keys):
    """an Amplitude u whose upper/lower slots match the lower/upper slots of
    the removed block (symmetric remainder) or None"""
    cls = TSPEC[tname][0]
    if cls == "nonsym":
        return None
    up, lo = split_slots(cls, nu, len(keys))
    if not up or not lo:
        return None
    return [keys[p] for p in lo], [keys[p] for p in up]


def _first_names(keys):
    cnt = {}
    out = []
    for k in keys:
        c = cnt.get(k, 0)
        out.append(POOLS[k][c])
        cnt[k] = c + 1
    return out


def generate(tier):
    quick = tier == "quick"
    f2, f4 = _fams(tier)
    out = []
    seen = set()
    counter = [0]
    maxd = 4 if quick else 5     # distinct index names per space and term
    maxt = 4                     # Einstein target indices per term

    def add(terms, name, md=None):
        terms = tuple(terms)
        for t in terms:
            per = {}
            for nme in all_names(t):
                per[key_of_name(nme)[0]] = per.get(key_of_name(nme)[0], 0) + 1
            if max(per.values()) > (md or maxd) or per.get("g", 0) > 3 or \
                    len(einstein_names(t)[0]) > maxt:
                return False
            if build_term(t) is S.Zero:
                return False
        # a tensor name has ONE rank split: the same name with (2,1) slots in
        # one term and (1,2) slots in another is not a meaningful input (the
        # block key of remove_tensor / derivative could not tell them apart)
        split = {}
        for t in terms:
            for o in t[1]:
                if o[0] == name and split.setdefault(len(o[3]), o[1]) != o[1]:
                    return False
        key = (terms, name)
        if key in seen:
            return False
        seen.add(key)
        out.append((terms, name))
        return True

    def pref():
        counter[0] += 1
        return PREF_CYCLE[counter[0] % len(PREF_CYCLE)]

    # ---- (1) one occurrence of a tensor with <= 2 slots: every block,
    #          generic remainders of rank 0..3 (+ two remainders), ALL patterns
    for fid, (tname, blocks) in f2.items():
        for nu, block in blocks:
            keys = list(block)
            n = len(keys)
            ks = _spaces_sorted(keys)
            rems = [(), (("x", ks),), (("x", ks[:1]),)]
            if len(ks) > 1 and ks[1] != ks[0]:
                rems.append((("x", ks[1:]),))
            rems.append((("x", _spaces_sorted(ks + ["o"])),))
            if not quick:
                rems.append((("x", _spaces_sorted(ks + ["v"])),))
                rems.append((("x", ks), ("y", ks)))
                rems.append((("x", ks[:1]), ("y", ks[-1:])))
            for rem in rems:
                rkeys = [k for _, kk in rem for k in kk]
                rr = _rem_ranges(n, rem)
                for names in _patterns(keys + rkeys, ordered=rr):
                    add([_term(pref(), [(tname, nu, 1, n)], rem, names)],
                        tname)
            ur = _u_remainder(tname, nu, keys)
            if ur is not None:
                uu, ul = ur
                for names in _patterns(keys + uu + ul):
                    objs = ((tname, nu, 1, tuple(names[:n])),
                            ("u", len(uu), 1, tuple(names[n:])))
                    add([(pref(), objs)], tname)
    # ---- (2) one occurrence of a tensor with 3 / 4 slots: no remainder
    #          (all patterns), generic remainder of the same rank with
    #          pairwise distinct indices, antisymmetric remainder u
    for fid, (tname, blocks) in f4.items():
        for nu, block in blocks:
            keys = list(block)
            n = len(keys)
            ks = _spaces_sorted(keys)
            rems = [(), (("x", ks),)]
            if not quick and fid in ("W", "X2"):
                rems.append((("x", ks[:-1]),))
                up, lo = split_slots(TSPEC[tname][0], nu, n)
                if up and lo:
                    rems.append((("x", [keys[p] for p in up]),
                                 ("y", [keys[p] for p in lo])))
            for rem in rems:
                rkeys = [k for _, kk in rem for k in kk]
                rr = _rem_ranges(n, rem)
                for names in _patterns(keys + rkeys, distinct=rr, ordered=rr):
                    add([_term(pref(), [(tname, nu, 1, n)], rem, names)],
                        tname, 4)
            ur = _u_remainder(tname, nu, keys)
            if ur is not None:
                uu, ul = ur
                rr = [(n, n + len(uu)), (n + len(uu), 2 * n)]
                for names in _patterns(keys + uu + ul, distinct=rr,
                                       ordered=rr):
                    if quick and len(set(names[:n])) < n:
                        continue
                    objs = ((tname, nu, 1, tuple(names[:n])),
                            ("u", len(uu), 1, tuple(names[n:])))
                    add([(pref(), objs)], tname, 4)
    # ---- (3) exponents
    for fams, small in ((f2, True), (f4, False)):
        for fid, (tname, blocks) in fams.items():
            for nu, block in blocks:
                keys = list(block)
                n = len(keys)
                ks = _spaces_sorted(keys)
                for ex in ((2,) if quick or not small else (2, 3)):
                    if ex == 3 and (fid not in ("d", "f", "a", "X1") or
                                    (nu, block) != blocks[0]):
                        continue
                    # Term.symmetry() of a power enumerates the permutations
                    # of ex * (slots per space) entries: tensors with 3 / 4
                    # slots only with <= 2 slots per (space, spin)
                    if not small and max(keys.count(k) for k in keys) > 2:
                        continue
                    if not small and quick and \
                            (fid not in ("W", "V", "X2") or
                             sorted(keys) != list("oovv")):
                        continue
                    if not small and fid not in ("W", "V", "A", "v", "X2",
                                                 "t2"):
                        continue
                    rems = [(), (("x", ks),)]
                    if small:
                        rems.append((("x", ks[:1]),))
                    for rem in rems:
                        rkeys = [k for _, kk in rem for k in kk]
                        rr = _rem_ranges(n, rem)
                        for names in _patterns(keys + rkeys, ordered=rr,
                                               distinct=() if small else rr):
                            if not small and quick and \
                                    len(set(names[:n])) < n:
                                continue
                            add([_term(pref(), [(tname, nu, ex, n)], rem,
                                       names)], tname)
    # ---- (4) two / three occurrences of tensors with <= 2 slots: every pair
    #          of blocks, all patterns
    for fid, (tname, blocks) in f2.items():
        if quick:
            if fid in ("Y1", "t1", "z2"):
                continue
            blocks = [b for b in blocks if "g" not in b[1]][:4]
            if fid == "dspin":
                blocks = blocks[:2]
        else:
            blocks = [b for b in blocks if b[1] != "go"]
        for (nu1, b1), (nu2, b2) in \
                itertools.combinations_with_replacement(blocks, 2):
            k1, k2 = list(b1), list(b2)
            if "g" in "".join(k1 + k2) and b1 != b2:
                continue
            allk = _spaces_sorted(k1 + k2)
            nt = len(k1) + len(k2)
            rems = [(), (("x", allk[:2]),)]
            if not quick or fid == "d":
                rems.append((("x", allk),))
            if not quick and fid == "d":
                rems.append((("x", allk[1:]),))
                rems.append((("x", allk[:2]), ("y", allk[2:])))
            occs = [(tname, nu1, 1, len(k1)), (tname, nu2, 1, len(k2))]
            for rem in rems:
                rkeys = [k for _, kk in rem for k in kk]
                rr = _rem_ranges(nt, rem)
                dist = rr if len(rkeys) > 2 else ()
                for names in _patterns(k1 + k2 + rkeys, ordered=rr,
                                       distinct=dist):
                    add([_term(pref(), occs, rem, names)], tname, 4)
            # exponent on one of two occurrences
            if fid in ("d", "X1"):
                rem = (("x", allk[:2]),)
                occs2 = [(tname, nu1, 2, len(k1)), (tname, nu2, 1, len(k2))]
                for names in _patterns(k1 + k2 + allk[:2],
                                       ordered=[(nt, nt + 2)]):
                    if quick and len(set(names[:nt])) < 3:
                        continue
                    add([_term(pref(), occs2, rem, names)], tname)
        if fid in ("d", "f"):
            for (nu1, b1), (nu2, b2), (nu3, b3) in \
                    itertools.combinations_with_replacement(
                        blocks[:2 if quick else 3], 3):
                k1, k2, k3 = list(b1), list(b2), list(b3)
                allk = k1 + k2 + k3
                if len(allk) > 6 or "g" in "".join(allk):
                    continue
                occs = [(tname, nu1, 1, len(k1)), (tname, nu2, 1, len(k2)),
                        (tname, nu3, 1, len(k3))]
                rems = [()] if quick or fid != "d" else \
                    [(), (("x", _spaces_sorted(allk)[:2]),)]
                for rem in rems:
                    rkeys = [k for _, kk in rem for k in kk]
                    rr = _rem_ranges(len(allk), rem)
                    for names in _patterns(allk + rkeys, ordered=rr):
                        # every index at most twice on the three tensors
                        c = {}
                        for nme in names[:len(allk)]:
                            c[nme] = c.get(nme, 0) + 1
                        if max(c.values()) > 2:
                            continue
                        add([_term(pref(), occs, rem, names)], tname, 4)
    # ---- (5) two occurrences of tensors with 3 / 4 slots (and mixed ranks
    #          of one name): the second occurrence carries its names per
    #          (space, spin) in non-decreasing order; quick: no index twice on
    #          one occurrence; remainder = one / two generic tensors over the
    #          indices that occur once
    for tname, (nu1, b1), (nu2, b2) in \
            PAIRS4_Q + ([] if quick else PAIRS4_T):
        k1, k2 = list(b1), list(b2)
        n1, n2 = len(k1), len(k2)
        occs = [(tname, nu1, 1, n1), (tname, nu2, 1, n2)]
        for names in _patterns(k1 + k2, ordered=[(n1, n1 + n2)]):
            if len(set(names[:n1])) < n1 or len(set(names[n1:])) < n2:
                if quick or (tname, (nu1, b1), (nu2, b2)) not in PAIRS4_Q[:3]:
                    continue
            t0 = _term("1", occs, (), names)
            ein0 = list(einstein_names(t0)[0])
            variants = [[]] if len(ein0) <= 2 or not quick else []
            if ein0:
                if len(ein0) <= 4:
                    variants.append([("x", ein0)])
                elif not quick:
                    h = len(ein0) // 2
                    variants.append([("x", ein0[:h]), ("y", ein0[h:])])
            for var in variants:
                objs = t0[1] + tuple((nm, len(ns), 1, tuple(ns))
                                     for nm, ns in var)
                add([(pref(), objs)], tname, 4)
    # ---- (6) rank (3,3), thorough only: fully contracted with a generic
    #          tensor (every assignment of its slots) / an antisymmetric one
    if not quick:
        for tname, nu, block in TRIPLES:
            keys = list(block)
            ks = _spaces_sorted(keys)
            add([(pref(), ((tname, nu, 1, tuple(_first_names(keys))),))],
                tname)
            base = _first_names(keys)
            add([(pref(), ((tname, nu, 1, tuple(base)),
                           ("x", 6, 1, tuple(sorted(base,
                                                    key=gen.name_key)))))],
                tname)
            # one target index on the tensor / one repeated index
            srt = sorted(base, key=gen.name_key)
            add([(pref(), ((tname, nu, 1, tuple(base)),
                           ("x", 5, 1, tuple(srt[1:]))))], tname)
            ur = _u_remainder(tname, nu, keys)
            uu, ul = ur
            un = _first_names(uu + ul)
            # u carries the same names as the tensor's lower / upper slots
            cls = TSPEC[tname][0]
            up, lo = split_slots(cls, nu, 6)
            order = [base[p] for p in lo] + [base[p] for p in up]
            add([(pref(), ((tname, nu, 1, tuple(base)),
                           ("u", 3, 1, tuple(order))))], tname)
    # ---- (7) sums of two terms
    singles = [c for c in out if len(c[0]) == 1]
    by_name = {}
    for terms, name in singles:
        t = terms[0]
        nslots = sum(len(o[3]) for o in t[1])
        by_name.setdefault(name, []).append((t, nslots))
    pairs = []
    for name, lst in by_name.items():
        # representatives: per (blocks of the occurrences, einstein targets,
        # carries-target / repeated flags, exponents, number of objects) the
        # first term(s)
        reps = {}
        for t, nslots in lst:
            ein, cnt = einstein_names(t)
            occ = [o for o in t[1] if o[0] == name]
            sig = (tuple(sorted(rm_block_str(o[3]) for o in occ)), ein,
                   any(n in ein for o in occ for n in o[3]),
                   any(len(set(o[3])) < len(o[3]) for o in occ),
                   tuple(o[2] for o in occ), len(t[1]))
            if nslots > (6 if quick else 8) or len(ein) > 2:
                continue
            if max(cnt.values()) > 2:
                continue
            reps.setdefault(sig, [])
            if len(reps[sig]) < (1 if quick else 2):
                reps[sig].append(t)
        rl = [t for v in reps.values() for t in v]
        for t1, t2 in itertools.combinations(rl, 2):
            e1, e2 = einstein_names(t1)[0], einstein_names(t2)[0]
            if e1 != e2:
                continue
            n1 = sum(1 for o in t1[1] if o[0] == name)
            n2 = sum(1 for o in t2[1] if o[0] == name)
            if n1 + n2 > (2 if quick else 3):
                continue
            pairs.append((name, t1, t2))
    lim = 220 if quick else 2000
    if len(pairs) > lim:
        step = len(pairs) / lim
        pairs = [pairs[int(k * step)] for k in range(lim)]
    for name, t1, t2 in pairs:
        # second term: remainder names x,y -> y,x so that no terms merge
        sw = {"x": "y", "y": "x"}
        t2r = (t2[0], tuple((sw.get(o[0], o[0]),) + tuple(o[1:])
                            for o in t2[1]))
        add([t1, t2r], name)
    # a term without the tensor, folded bra-ket partners, the two removal
    # orders of two blocks that share a space, occurrences with / without a
    # target index in one block
    extra = [
        ("d", [("1", (("d", 1, 1, ("i", "j")), ("x", 2, 1, ("i", "j")))),
               ("2", (("y", 2, 1, ("i", "a")), ("x", 2, 1, ("i", "a"))))]),
        ("f", [("1", (("f", 1, 1, ("i", "a")), ("x", 2, 1, ("i", "a")))),
               ("-1", (("f", 1, 1, ("a", "i")), ("y", 2, 1, ("i", "a"))))]),
        ("f", [("1", (("f", 1, 1, ("i", "a")), ("x", 2, 1, ("i", "a")))),
               ("2", (("f", 1, 1, ("i", "j")), ("y", 2, 1, ("i", "j"))))]),
        ("V", [("1/4", (("V", 2, 1, ("i", "j", "a", "b")),
                        ("x", 4, 1, ("i", "j", "a", "b")))),
               ("1/4", (("V", 2, 1, ("a", "b", "i", "j")),
                        ("y", 4, 1, ("i", "j", "a", "b"))))]),
        ("d", [("1", (("d", 1, 1, ("i", "j")), ("d", 1, 1, ("k", "a")),
                      ("x", 4, 1, ("i", "j", "k", "a")))),
               ("1", (("d", 1, 1, ("i", "a")), ("d", 1, 1, ("j", "k")),
                      ("y", 4, 1, ("i", "a", "j", "k"))))]),
        ("X", [("1", (("X", 1, 1, ("a", "i")),
                      ("X", 2, 1, ("b", "c", "j", "k")),
                      ("x", 2, 1, ("i", "a")),
                      ("y", 4, 1, ("j", "k", "b", "c")))),
               ("1", (("X", 2, 1, ("a", "b", "i", "j")),
                      ("X", 1, 1, ("c", "k")),
                      ("y", 2, 1, ("k", "c")),
                      ("x", 4, 1, ("i", "j", "a", "b"))))]),
        ("d", [("1", (("d", 1, 1, ("i", "a")), ("x", 1, 1, ("a",)))),
               ("1", (("d", 1, 1, ("j", "a")),
                      ("y", 3, 1, ("i", "j", "a"))))]),
    ]
    for name, terms in extra:
        add(terms, name)
    return out


def describe(case):
    terms, name = case
    return {"expression": " + ".join(str(build_term(t)) for t in terms),
            "remove": name}


# --------------------------------------------------------------------------
# evaluation helpers
# --------------------------------------------------------------------------
def _sizes(sympy_terms):
    no = nv = 1
    spin = False
    for t in sympy_terms:
        o = v = g = 0
        for s in t.atoms(Index):
            if s.spin:
                spin = True
            sp = s.space[0]
            if sp == "o":
                o += 1
            elif sp == "v":
                v += 1
            else:
                g += 1
        no = max(no, o + g)
        nv = max(nv, v + g)
    return no, nv, spin


def _model_for(sympy_terms, input_terms=None):
    """free model large enough for every term of the input (number of index
    symbols per space) plus one more orbital per space; terms of the
    re-contraction that carry more symbols (slot indices tied to the indices
    of the input by deltas) do not enlarge the model further."""
    no, nv, spin = _sizes(sympy_terms)
    if input_terms is not None:
        eo, ev, _ = _sizes(input_terms)
        no = min(no, max(eo + 1, 2))
        nv = min(nv, max(ev + 1, 2))
    return free_model(no, nv, spin, tag="c14")


def _terms_of(x):
    x = getattr(x, "sympy", x)
    x = S(x)
    if x is S.Zero:
        return []
    x = x.expand()
    return [t for t in split_terms(x) if t is not S.Zero]


def _eval_sum(terms, target, model):
    tot = Table(tuple(target), {})
    for t in terms:
        tot = add_tables(tot, evaluate(t, target, model))
    return tot


def _sym_violation(tab, n_t, groups):
    """groups: [(offset, tname, nu, keys)] of slot groups in the axes of tab
    (after n_t target axes).  Returns text or None."""
    for off, tname, nu, keys in groups:
        for perm, sign in generators(tname, nu, keys):
            for k, v in tab.data.items():
                kk = list(k)
                for new, old in enumerate(perm):
                    kk[off + new] = k[off + old]
                w = tab.data.get(tuple(kk), ZERO)
                if not ring.equal(w, v * sign):
                    return (f"slot permutation {perm} of block "
                            f"{''.join(keys)} (sign {sign}): R{k} = {v!r} but "
                            f"R{tuple(kk)} = {w!r}")
    return None


# --------------------------------------------------------------------------
# the case
# --------------------------------------------------------------------------
def _target_modes(terms, name):
    eins = [einstein_names(t)[0] for t in terms]
    ein = eins[0]
    modes = []
    if all(e == ein for e in eins):
        modes.append(None)
        modes.append(ein)
    common = [n for n in all_names(terms[0])
              if all(n in all_names(t) for t in terms[1:])]
    contracted = [n for n in common if n not in ein]
    on_tensor = [n for o in terms[0][1] if o[0] == name for n in o[3]]
    first = [n for n in contracted if n in on_tensor][:2] + \
            [n for n in contracted if n not in on_tensor][:1]
    if all(e == ein for e in eins):
        for n in first:
            modes.append(tuple(sorted(ein + (n,), key=gen.name_key)))
    else:
        modes.append(tuple(sorted(set(sum(eins, ())), key=gen.name_key)))
    return modes


def run_case(case):
    terms, name = case
    built = [build_term(t) for t in terms]
    if any(b is S.Zero for b in built):
        return {"status": "skip", "key": repr(case), "outcome": "zero",
                "nontrivial": False, "transitions": 0}
    results = []
    for tg in _target_modes(terms, name):
        results.extend(_one(case, terms, name, built, tg))
    return results


def _classify(terms, name, tnames):
    cls, bks = TSPEC[name]
    occ = [o for t in terms for o in t[1] if o[0] == name]
    nocc = max(sum(1 for o in t[1] if o[0] == name) for t in terms)
    tgt = any(n in tnames for o in occ for n in o[3])
    rep = any(len(set(o[3])) < len(o[3]) for o in occ)
    ex = any(o[2] > 1 for o in occ) or any(
        isinstance(p, Pow) and getattr(p.args[0], "name", None) == name
        for t in terms for p in build_term(t).atoms(Pow))
    rank = max((len(o[3]) for o in occ), default=0)
    sym = cls != "nonsym" and (bks != 0 or any(
        g0_size(cls, o[1], [key_of_name(n) for n in
                            _idx_names(o)]) > 1 for o in occ))
    tag = f"{cls}/bks{bks}" + ("/adc" if name in ADC else "")
    flags = []
    if nocc > 1:
        flags.append(f"{nocc}occ")
    if ex:
        flags.append("exponent")
    if tgt:
        flags.append("target-idx")
    if rep:
        flags.append("repeated-idx")
    if len(terms) > 1:
        flags.append("multi-term")
    nontrivial = bool(sym or nocc > 1 or ex or tgt or rep or len(terms) > 1)
    return tag, flags, nontrivial, rank


def _hyper_on_tensor(terms, name):
    """does an index of an occurrence of the tensor occur three or more times
    in its term (counting exponents)?"""
    for t in terms:
        cnt = einstein_names(t)[1]
        for o in t[1]:
            if o[0] == name and any(cnt[n] >= 3 for n in o[3]):
                return True
    return False


def _idx_names(o):
    tname, nu, ex, names = o
    cls = TSPEC[tname][0]
    obj = build_obj(tname, nu, names)
    if obj is S.Zero:
        return list(names)
    b = obj
    if isinstance(b, Mul):   # -1 * tensor
        b = [a for a in b.args if not a.is_number][0]
    return idx_order_names(b, cls)


def _one(case, terms, name, built, tg):
    ein = einstein_names(terms[0])[0]
    tnames = ein if tg is None else tg
    target = gen.syms(tnames)
    kwargs = {} if tg is None else {"target_idx": list(target)}
    E = Add(*built)
    info = (f"input: {E}   remove '{name}'   target={tnames} "
            f"explicit={tg is not None}\n")
    tag, flags, nontrivial, rank = _classify(terms, name, tnames)
    cls, bks = TSPEC[name]
    # shapes of the removable tensor by number of slots
    shapes = {}
    for t in terms:
        for o in t[1]:
            if o[0] == name:
                shapes[len(o[3])] = o[1]
    ctx = dict(case=case, terms=terms, name=name, tg=tg, tnames=tnames,
               target=target, kwargs=kwargs, E=E, info=info, tag=tag,
               flags=flags, nontrivial=nontrivial, shapes=shapes,
               built=built)
    if E is S.Zero or not E.atoms(Index) and E.is_number:
        return [{"status": "skip", "key": repr((case, tg)), "outcome": "zero",
                 "nontrivial": False, "transitions": 0}]
    return [_check_remove(ctx), _check_derivative(ctx)]


def _expected_blocks(ctx):
    """block (space, spin) of every occurrence, from the constructed objects"""
    out = set()
    for t in ctx["terms"]:
        for o in t[1]:
            if o[0] == ctx["name"]:
                out.add(block_of(_idx_names(o)))
    return out


SPECIAL = (
    "remove_tensor:einstein-convention:index-of-the-tensor-occurs-three-or-"
    "more-times",
    "derivative:tensor-with-exponent",
    "derivative:tensor-carries-target-index",
    "derivative:tensor-carries-repeated-index",
)


# derivative() adds the contributions of all occurrences of one block under
# one key although their (minimised) index tuples differ (d_ii / d_ij,
# d_ia with target i / d_ja): no variation tensor can be contracted with the sum
AMBIGUOUS_FINDING = ("derivative:one-block-sums-occurrences-with-different-"
                     "target-or-repeated-index-patterns")


def _fk(fclass, suffix):
    """finding key: the root-cause classes carry no suffix"""
    return fclass if fclass in SPECIAL else fclass + suffix


def _refusal(err):
    return err.startswith("NotImplementedError") or err.startswith("Inputerror")


# ------------------------------------------------------------- remove_tensor
def _check_remove(ctx):
    name, tnames, target = ctx["name"], ctx["tnames"], ctx["target"]
    info = ctx["info"]
    key = "rm:" + repr((ctx["case"], ctx["tg"]))
    base = {"key": key, "transitions": 1, "nontrivial": ctx["nontrivial"]}
    fclass = "remove_tensor:" + ctx["tag"] + \
        ("/" + "+".join(ctx["flags"]) if ctx["flags"] else "")
    if ctx["tg"] is None and _hyper_on_tensor(ctx["terms"], name):
        # the block expression needs explicit target indices, which
        # remove_tensor only sets if the input had explicit ones
        fclass = ("remove_tensor:einstein-convention:index-of-the-tensor-"
                  "occurs-three-or-more-times")
    expr = Expr(ctx["E"], **ctx["kwargs"])
    res, err = safe_call(remove_tensor, expr, name)
    if err:
        if _refusal(err):
            return dict(base, status="ok", nontrivial=False,
                        outcome="rm:refusal:" + err.split(":")[0])
        return dict(base, status="violation", outcome="rm:exception",
                    finding=_fk(fclass, ":exception:" + err.split(":")[0]),
                    detail=info + err)
    cls, bks = TSPEC[name]
    exp_blocks = {sp if set(spin) <= {"n"} else f"{sp}_{spin}"
                  for sp, spin in _expected_blocks(ctx)}
    # ---- tables per key and order
    per_key = []      # [(key, [(order, table_terms, slot groups)])]
    all_sympy = list(ctx["built"])
    prepared = []
    for k, val in res.items():
        rterms = _terms_of(val)
        info += f"  result[{k}] = {getattr(val, 'sympy', val)}\n"
        if tuple(k) == ("none",):
            prepared.append((k, [((), rterms, [], ONE, [])]))
            all_sympy.extend(rterms)
            continue
        if len(k) > 1 and "none" in k:
            # recursion on a vanished remainder: ('none', block); the value is
            # 0 -- otherwise the value check below fails
            k = tuple(b for b in k if b != "none")
        try:
            bkeys = [parse_rm_block(b) for b in k]
        except ValueError:
            return dict(base, status="violation", outcome="rm:bad-key",
                        finding=_fk(fclass, ":unparsable-block-key"),
                        detail=info + f"cannot parse key {k}")
        if any(len(bk) not in ctx["shapes"] for bk in bkeys) or \
                any(b not in exp_blocks for b in k):
            if rterms:
                return dict(base, status="violation", outcome="rm:bad-key",
                            finding=_fk(fclass, ":unexpected-block-key"),
                            detail=info + f"key {k}: the tensor occurs in "
                            f"the blocks {sorted(exp_blocks)} only")
            continue
        alts = []
        for order in sorted(set(itertools.permutations(range(len(k))))):
            sig = tuple(k[p] for p in order)
            if any(sig == a[5] for a in alts):
                continue
            taken = set(tnames)
            tens = []
            groups = []
            w = ONE
            off = len(tnames)
            slot_names_all = []
            for p in order:
                bk = bkeys[p]
                nu = ctx["shapes"][len(bk)]
                slots = lowest_names(bk, taken)
                slot_names_all.extend(slots)
                tens.append(_tensor_from_slots(name, nu, slots))
                groups.append((off, name, nu, bk))
                off += len(bk)
                w = w * rm_weight(name, nu, bk)
            prods = [Mul(*tens) * r for r in rterms]
            alts.append((order, prods, groups, w, slot_names_all, sig,
                         rterms))
            all_sympy.extend(prods)
        prepared.append((k, alts))
    model = _model_for(all_sympy, ctx["built"])
    try:
        lhs = evaluate(ctx["E"], target, model)
        tabs = []
        for k, alts in prepared:
            lst = []
            for alt in alts:
                t = _eval_sum(alt[1], target, model)
                t = Table(t.axes, {kk: v * alt[3] for kk, v in t.data.items()})
                lst.append(t)
            tabs.append(lst)
    except Unsupported as e:
        return dict(base, status="violation", outcome="rm:unsupported",
                    finding="oracle-unsupported", detail=info + str(e))
    choice = None
    diff = None
    for combo in itertools.product(*[range(len(l)) for l in tabs]):
        tot = Table(tuple(target), {})
        for lst, c in zip(tabs, combo):
            tot = add_tables(tot, lst[c])
        d = tables_equal(lhs, tot)
        if d is None:
            choice = combo
            break
        if diff is None:
            diff = d
    nkeys = len(res)
    nterms = sum(len(a[0][1]) for _, a in prepared if a)
    outcome = (f"rm:keys={sorted('+'.join(k) for k in res)}"[:80] +
               f":terms={nterms}")
    if choice is None:
        finding = _fk(fclass, ":value")
        extra = ""
        if fclass not in SPECIAL and \
                _per_term_orders_restore(prepared, lhs, target, model):
            finding = ORDER_FINDING
            extra = ("\nthe input is restored if the blocks of the key are "
                     "assigned to the slot groups in a DIFFERENT order for "
                     "different terms of the block expression: the slot "
                     "indices of an occurrence depend on the order in which "
                     "the occurrences were removed, which depends on the "
                     "order of the objects in each term; no single "
                     "re-contraction of the returned expression restores "
                     "the input")
        return dict(base, status="violation", outcome=outcome + ":value",
                    finding=finding,
                    detail=info + "re-contraction with the documented "
                    "normalisation does not restore the value: " +
                    fmt_diff(diff) + extra)
    # ---- symmetry of the block expressions
    for (k, alts), c in zip(prepared, choice):
        if tuple(k) == ("none",) or not alts:
            continue
        order, prods, groups, w, slots, sig, rterms = alts[c]
        if not any(generators(nm, nu, bk) for _, nm, nu, bk in groups):
            continue
        ax = tuple(target) + gen.syms(slots)
        m2 = model
        try:
            rt = _eval_sum(rterms, ax, m2)
        except Unsupported as e:
            return dict(base, status="violation", outcome="rm:unsupported",
                        finding="oracle-unsupported", detail=info + str(e))
        msg = _sym_violation(rt, len(target), groups)
        if msg:
            fsym = _fk(fclass, ":result-lacks-tensor-symmetry")
            if len(groups) >= 3 and fclass not in SPECIAL:
                # value restored, but a later removal picked one of several
                # equivalent occurrences and broke the symmetry in the slots
                # of an earlier one
                fsym = ("remove_tensor:three-or-more-removals:symmetry-in-"
                        "slots-of-earlier-removed-occurrence-lost")
            return dict(base, status="violation", outcome=outcome + ":sym",
                        finding=fsym,
                        detail=info + f"block expression of key {k} (slots "
                        f"{slots}) does not carry the symmetry of the "
                        f"removed tensor: {msg}")
    remains = any(getattr(a, "name", None) == name
                  for _, alts in prepared for alt in alts[:1]
                  for r in (alt[6] if len(alt) > 6 else alt[1])
                  for a in r.atoms(AntiSymmetricTensor, NonSymmetricTensor))
    if remains:
        outcome += ":tensor-remains"
    return dict(base, status="ok", outcome=outcome)


ORDER_FINDING = ("remove_tensor:several-occurrences-in-different-blocks:"
                 "slot-indices-depend-on-removal-order")


def _per_term_orders_restore(prepared, lhs, target, model, cap=5000):
    """classification of a value failure: is there, for the single key with
    several block orders, an assignment  term of R -> order  that restores
    the input?"""
    multi = [(k, alts) for k, alts in prepared if len(alts) > 1]
    if len(multi) != 1:
        return False
    rest = Table(tuple(target), {})
    for k, alts in prepared:
        if len(alts) == 1:
            t = _eval_sum(alts[0][1], target, model)
            rest = add_tables(rest, Table(t.axes, {kk: v * alts[0][3]
                                                   for kk, v in
                                                   t.data.items()}))
    k, alts = multi[0]
    nterm = len(alts[0][1])
    if len(alts) ** nterm > cap:
        return False
    per = []
    for alt in alts:
        lst = []
        for prod in alt[1]:
            t = evaluate(prod, target, model)
            lst.append(Table(t.axes, {kk: v * alt[3]
                                      for kk, v in t.data.items()}))
        per.append(lst)
    for assign in itertools.product(range(len(alts)), repeat=nterm):
        tot = rest
        for j, a in enumerate(assign):
            tot = add_tables(tot, per[a][j])
        if tables_equal(lhs, tot) is None:
            return True
    return False


def _tensor_from_slots(name, nu, slots, name_override=None):
    """tensor with the slot names given in idx order (amplitude: lower+upper)"""
    cls, bks = TSPEC[name]
    n = len(slots)
    if cls == "amp":
        nl = n - nu
        names = tuple(slots[nl:]) + tuple(slots[:nl])
    else:
        names = tuple(slots)
    return build_obj(name, nu, names, name_override)


# ---------------------------------------------------------------- derivative
def _check_derivative(ctx):
    name, tnames, target = ctx["name"], ctx["tnames"], ctx["target"]
    info = ctx["info"]
    key = "dv:" + repr((ctx["case"], ctx["tg"]))
    base = {"key": key, "transitions": 1, "nontrivial": ctx["nontrivial"]}
    fclass = "derivative:" + ctx["tag"] + \
        ("/" + "+".join(ctx["flags"]) if ctx["flags"] else "")
    if "exponent" in ctx["flags"]:
        fclass = "derivative:tensor-with-exponent"
    elif "target-idx" in ctx["flags"]:
        fclass = "derivative:tensor-carries-target-index"
    elif "repeated-idx" in ctx["flags"]:
        fclass = "derivative:tensor-carries-repeated-index"
    expr = Expr(ctx["E"], **ctx["kwargs"])
    res, err = safe_call(derivative, expr, name)
    if err:
        if _refusal(err):
            return dict(base, status="ok", nontrivial=False,
                        outcome="dv:refusal:" + err.split(":")[0])
        return dict(base, status="violation", outcome="dv:exception",
                    finding=_fk(fclass, ":exception:" + err.split(":")[0]),
                    detail=info + err)
    # ---- first-order change by the product rule on the descriptor
    delta_terms = []
    namings = {}     # block -> {slot names tuple: nu}
    for t in ctx["terms"]:
        for k, o in enumerate(t[1]):
            if o[0] != name:
                continue
            dt = build_term(t, replace=k)
            if dt is not S.Zero:
                delta_terms.append(dt)
            idxn = _idx_names(o)
            mn = minimised(idxn, set(tnames))
            namings.setdefault(block_of(mn), {})[mn] = o[1]
    all_sympy = list(delta_terms)
    prepared = []
    for k, val in res.items():
        dterms = _terms_of(val)
        info += f"  derivative[{k}] = {getattr(val, 'sympy', val)}\n"
        if not (isinstance(k, tuple) and len(k) == 2 and
                all(isinstance(x, str) for x in k)):
            return dict(base, status="violation", outcome="dv:bad-key",
                        finding=_fk(fclass, ":unparsable-block-key"),
                        detail=info + f"cannot parse key {k}")
        nm = namings.get(tuple(k))
        if nm is None:
            if dterms:
                return dict(base, status="violation", outcome="dv:bad-key",
                            finding=_fk(fclass, ":unexpected-block-key"),
                            detail=info + f"key {k}: the tensor occurs in "
                            f"the blocks {sorted(namings)} only")
            continue
        alts = []
        for slots, nu in sorted(nm.items()):
            eta = _tensor_from_slots(name, nu, slots, ETA)
            # the block expression multiplies the CANONICAL tensor: when a
            # target index keeps the minimised indices from being in
            # canonical order, the sign of the re-canonicalisation belongs to
            # the block expression ("move the -1 to the contribution",
            # derivative.py), not to the variation
            if eta.could_extract_minus_sign():
                eta = -eta
            prods = [eta * r for r in dterms]
            alts.append((slots, prods))
            all_sympy.extend(prods)
        prepared.append((k, alts))
    model = _model_for(all_sympy, ctx["built"])
    try:
        lhs = _eval_sum(delta_terms, target, model)
        tabs = [[_eval_sum(p, target, model) for _, p in alts]
                for _, alts in prepared]
    except Unsupported as e:
        return dict(base, status="violation", outcome="dv:unsupported",
                    finding="oracle-unsupported", detail=info + str(e))
    ok = False
    diff = None
    for combo in itertools.product(*[range(len(l)) for l in tabs]):
        tot = Table(tuple(target), {})
        for lst, c in zip(tabs, combo):
            tot = add_tables(tot, lst[c])
        d = tables_equal(lhs, tot)
        if d is None:
            ok = True
            break
        if diff is None:
            diff = d
    nterms = sum(len(a[0][1]) for _, a in prepared if a)
    outcome = (f"dv:keys={sorted(k[0] + ('' if set(k[1]) <= {'n'} else '_' + k[1]) for k in res)}"[:80] +
               f":terms={nterms}")
    if ok:
        return dict(base, status="ok", outcome=outcome)
    ambiguous = any(len(a) > 1 for _, a in prepared)
    extra = ""
    if ambiguous:
        extra = ("\n(the contributions of occurrences whose minimised index "
                 "tuples differ - "
                 f"{ {k: sorted(v) for k, v in namings.items() if len(v) > 1} }"
                 " - are summed under one block key; every choice of the "
                 "index tuple of the variation was tried)")
    return dict(base, status="violation",
                outcome=outcome + (":ambiguous" if ambiguous else ":value"),
                finding=AMBIGUOUS_FINDING if ambiguous
                else _fk(fclass, ":value"),
                detail=info + "sum_blocks eta_b * derivative_b differs from "
                "the coefficient of eps in E(N + eps*eta): " + fmt_diff(diff)
                + extra)
