"""C13  Orbital-energy fraction algebra and Fock diagonalisation preserve the
value.

Fraction grammar:  pref * numerator * prod_k bracket_k^(-n_k) * remainder
  remainder  : 7 families over occupied i,j,(k) / virtual a,b,(c) with
               different contracted / target splits
  brackets   : every singles / doubles (/ triples) orbital-energy bracket over
               the indices of the remainder, both overall signs, exponent 1..2
  numerator  : 1, single energies, +-bracket, sums of brackets, brackets with
               rational coefficients
Operations (each a transition on the real code): EriOrbenergy(t).expr,
canonicalize_sign(only_denom), permute_num, cancel_orb_energy_frac,
symbolic_denominator, Expr.use_symbolic_denominators /
use_explicit_denominators (both directions), factor_eri_parts, factor_denom on
two-term sums; diagonalize_fock / block_diagonalize_fock on terms with 1..2
Fock factors.
Oracle: value tables as rational functions of the orbital energies (exact),
e := formal, D := 1/(sum e_upper - sum e_lower), f := diag(e) resp. block
diagonal formal.
"""
import itertools

from sympy import S, Rational, Pow, Add, Mul

from adcgen import Expr, EriOrbenergy
from adcgen.misc import Inputerror
from adcgen.reduce_expr import factor_eri_parts, factor_denom
from adcgen.sympy_objects import (AntiSymmetricTensor, NonSymmetricTensor,
                                  SymmetricTensor, Amplitude, KroneckerDelta)

from .. import gen
from ..model import (Model, Space, orb_energy, fock_canonical,
                     fock_block_diagonal, symbolic_denominator)
from ..evalexpr import evaluate, tables_equal, Unsupported
from .common import fmt_diff, safe_call

ID = "C13"
CASE_TIMEOUT = 900
CHUNK = 8
RULE = ("state = (remainder family, target split, denominator brackets with "
        "exponents, numerator, prefactor, operation); non-trivial = the "
        "denominator has >= 1 bracket and the operation has something to do "
        "(numerator not 1 for cancel/permute, sign flip for canonicalize, ...)")
ASSUMPTIONS = [
    "brackets have coefficients +-1 with one sign per space (the documented "
    "input form of EriOrbenergy); numerators whose sign pattern the library "
    "documents as ambiguous (RuntimeError) are counted as refused",
    "model N_occ = N_virt = number of index symbols per space (2 or 3)",
]

_MODELS = {}


def _model(n, kind):
    key = (n, kind)
    m = _MODELS.get(key)
    if m is None:
        defs = {"e": orb_energy, "D": symbolic_denominator}
        if kind == "canonical":
            defs["f"] = fock_canonical
        elif kind == "block":
            defs["f"] = fock_block_diagonal
        m = Model(Space(n, n), defs=defs, bks_override={"V": 1, "f": 1})
        _MODELS[key] = m
    return m


def _e(n):
    return NonSymmetricTensor("e", (gen.sym(n),))


def _V(*n):
    s = gen.syms(n)
    return AntiSymmetricTensor("V", s[:2], s[2:], 1)


def _ns(name, *n):
    return NonSymmetricTensor(name, gen.syms(n))


REMAINDERS = {
    # name: (builder, targets, occ indices, virt indices)
    "Vy": (lambda: _V("i", "j", "a", "b") * _ns("y", "i", "j", "a", "b"),
           (), "ij", "ab"),
    "V2": (lambda: _V("i", "j", "a", "b") ** 2, (), "ij", "ab"),
    "Vt": (lambda: _V("i", "j", "a", "b"), ("i", "j", "a", "b"), "ij", "ab"),
    "x_t": (lambda: _ns("x", "i", "a"), ("i", "a"), "i", "a"),
    "Vy_ia": (lambda: _V("i", "j", "a", "b") * _ns("y", "j", "b"),
              ("i", "a"), "ij", "ab"),
    "VVt": (lambda: _V("i", "k", "a", "c") * _V("j", "k", "b", "c"),
            ("i", "j", "a", "b"), "ijk", "abc"),
    "x3_t": (lambda: _ns("x", "i", "j", "k", "a", "b", "c"),
             ("i", "j", "k", "a", "b", "c"), "ijk", "abc"),
    "At": (lambda: Amplitude("t1", gen.syms("ab"), gen.syms("ij")) *
           _V("i", "j", "a", "b"), (), "ij", "ab"),
}


def _brackets(occ, virt):
    """list of (occ tuple, virt tuple) index sets of singles/doubles/triples"""
    out = []
    for n in (1, 2, 3):
        for o in itertools.combinations(occ, n):
            for v in itertools.combinations(virt, n):
                out.append((o, v))
    return out


def _bracket_expr(b, sign):
    o, v = b
    ex = S.Zero
    for n in v:
        ex += _e(n)
    for n in o:
        ex -= _e(n)
    return ex if sign > 0 else -ex


def bounds(tier):
    return {"remainders": list(REMAINDERS), "max_brackets": 2 if tier == "quick"
            else 3, "exponents": [1, 2], "prefs": ["1", "-1/2", "3"]}


def generate(tier):
    out = []
    maxb = 2 if tier == "quick" else 3
    for rname, (_, targets, occ, virt) in REMAINDERS.items():
        bl = _brackets(occ, virt)
        maxb_r = maxb
        if len(occ) == 3:
            # restrict to the brackets that matter for 3+3 indices
            bl = [b for b in bl if len(b[0]) in (2, 3)]
            bl = bl[:6] if tier == "quick" else bl[:14]
            maxb_r = 1 if tier == "quick" else 2
        signed = [(k, s, ex) for k in range(len(bl)) for s in (1, -1)
                  for ex in (1, 2)]
        for nb in range(0, maxb_r + 1):
            for combo in itertools.combinations(signed, nb):
                if len({c[0] for c in combo}) < nb:
                    continue
                if nb >= 2 and tier == "quick" and \
                        sum(c[2] for c in combo) > 3:
                    continue
                if nb == 3 and sum(c[2] for c in combo) > 4:
                    continue
                out.append(("frac", rname, combo))
    # Fock diagonalisation
    for k in range(len(_fock_inputs())):
        out.append(("fock", k))
    # two-term sums for factor_eri_parts / factor_denom
    for k in range(len(_sum_inputs())):
        out.append(("sum", k))
    return out


def describe(case):
    return {"part": case[0], "params": case[1:]}


def _numerators(bl, combo, occ, virt):
    """list of (label, sympy numerator)"""
    nums = [("1", S.One), ("e_o", _e(occ[0])), ("e_v", _e(virt[0])),
            ("-e_v+e_o", _e(occ[0]) - _e(virt[0]))]
    for n, (k, s, ex) in enumerate(combo):
        B = _bracket_expr(bl[k], 1)
        nums.append((f"+B{n}", B))
        nums.append((f"-B{n}", -B))
        nums.append((f"B{n}/2", B / 2))
        nums.append((f"B{n}+e", B + _e(virt[0])))
        nums.append((f"2B{n}-e", 2 * B - _e(occ[-1])))
    if len(combo) >= 2:
        tot = S.Zero
        for k, s, ex in combo:
            tot += _bracket_expr(bl[k], 1)
        nums.append(("sumB", tot))
        nums.append(("B0-B1", _bracket_expr(bl[combo[0][0]], 1)
                     - _bracket_expr(bl[combo[1][0]], 1)))
    return [(l, n) for l, n in nums if n is not S.Zero]


REFUSALS = ("Ambiguous signs", "Apparently not all", "Invalid numerator",
            "Invalid denominator", "Invalid bracket", "Invalid object",
            "Invalid term", "Invalid prefactor", "that is added and subtracted",
            "Expected a denominator bracket", "Expected a bracket")


def _refused(err):
    head = err.split("\n")[0]
    return (head.startswith(("RuntimeError", "Inputerror",
                             "NotImplementedError"))
            and any(r in head for r in REFUSALS)) or \
        head.startswith("NotImplementedError")


def _frac_case(case):
    _, rname, combo = case
    builder, tnames, occ, virt = REMAINDERS[rname]
    rem = builder()
    bl = _brackets(occ, virt)
    if len(occ) == 3:
        bl = [b for b in bl if len(b[0]) in (2, 3)]
    target = gen.syms(tnames)
    n = len(occ)
    model = _model(n, "canonical")
    denom = S.One
    for k, s, ex in combo:
        denom = denom * Pow(_bracket_expr(bl[k], s), -ex)
    results = []
    prefs = [S.One, Rational(-1, 2), S(3)]
    for (nl, num), pref in itertools.product(
            _numerators(bl, combo, occ, virt), prefs):
        if nl not in ("1", "+B0", "sumB") and pref is S(3):
            continue
        term = pref * num * denom * rem
        expr0 = Expr(term, target_idx=list(target), real=True)
        if len(expr0) != 1:
            continue
        ref = evaluate(expr0.sympy, target, model)
        label = (rname, combo, nl, str(pref))

        def check(op, fn, nontrivial):
            key = repr((label, op))
            base = {"key": key, "transitions": 1, "nontrivial": nontrivial}
            out, err = safe_call(fn)
            info = f"{op} on {expr0.sympy}  targets={tnames}\n"
            if err:
                if _refused(err):
                    results.append(dict(base, status="ok", nontrivial=False,
                                        outcome=f"{op}:refused"))
                    return None
                results.append(dict(base, status="violation",
                                    outcome=f"{op}:exception",
                                    finding=f"{op}-exception",
                                    detail=info + err))
                return None
            sym = getattr(out, "sympy", out)
            info += f"result: {sym}\n"
            try:
                got = evaluate(sym, target, model)
            except (Unsupported, NotImplementedError, ZeroDivisionError) as e:
                results.append(dict(base, status="violation",
                                    outcome=f"{op}:unsupported",
                                    finding="oracle-unsupported",
                                    detail=info + repr(e)))
                return None
            diff = tables_equal(ref, got)
            if diff is not None:
                results.append(dict(base, status="violation",
                                    outcome=f"{op}:value",
                                    finding=f"{op}-value-changed",
                                    detail=info + "value changed "
                                    + fmt_diff(diff)))
                return None
            if hasattr(out, "provided_target_idx") and \
                    out.provided_target_idx is not None and \
                    set(out.provided_target_idx) != set(target):
                results.append(dict(base, status="violation",
                                    outcome=f"{op}:targets",
                                    finding=f"{op}-targets-changed",
                                    detail=info + f"targets "
                                    f"{out.provided_target_idx}"))
                return None
            results.append(dict(base, status="ok", outcome=f"{op}:ok"))
            return out

        def eo():
            return EriOrbenergy(expr0.terms[0])
        has_d = bool(combo)
        has_n = nl != "1"
        check("split", lambda: eo().expr, has_d or has_n)
        check("canon_sign", lambda: eo().canonicalize_sign().expr, has_d)
        check("canon_sign_denom",
              lambda: eo().canonicalize_sign(only_denom=True).expr, has_d)
        check("permute_num", lambda: eo().permute_num().expr, has_n)
        check("cancel", lambda: eo().cancel_orb_energy_frac(), has_d and has_n)
        if has_d:
            def symb():
                t = eo()
                return t.symbolic_denominator() * t.pref * t.num.sympy * \
                    t.eri.sympy
            check("symbolic_denominator", symb, True)
            sd = check("use_symbolic",
                       lambda: expr0.copy().use_symbolic_denominators(), True)
            if sd is not None:
                check("symbolic_then_explicit",
                      lambda: sd.copy().use_explicit_denominators(), True)
                # the symbolic tensor must be a bra-ket antisymmetric
                # SymmetricTensor named D
    return results


def _fock_inputs():
    i, j, k, a, b, c, p, q = gen.syms("ijkabcpq")
    f = lambda x, y: AntiSymmetricTensor("f", (x,), (y,), 1)  # noqa
    x2 = lambda *s: NonSymmetricTensor("x", s)  # noqa
    t1 = lambda x, y: Amplitude("t1", (x,), (y,))  # noqa
    ins = [
        (f(i, j) * x2(i, j), ()), (f(i, j) * x2(i, j), (i,)),
        (f(i, j) * x2(i, j), (j,)), (f(i, j) * x2(i, j), (i, j)),
        (f(i, j) * x2(j, a), (i, a)), (f(i, j) * x2(i, a), (j, a)),
        (f(a, b) * x2(a, b), ()), (f(a, b) * x2(i, b), (i, a)),
        (f(i, a) * x2(i, a), ()), (f(i, a) * x2(i, a), (i, a)),
        (f(i, a) * t1(a, i), ()),
        (f(i, i) * x2(i, i), ()), (f(i, i) * x2(i, j), (j,)),
        (f(i, j) * f(a, b) * NonSymmetricTensor("y", (i, j, a, b)), ()),
        (f(i, j) * f(a, b) * NonSymmetricTensor("y", (i, j, a, b)), (i, a)),
        (f(i, j) * f(j, k) * x2(i, k), ()),
        (f(i, j) * f(j, k) * x2(i, k), (i, k)),
        (f(i, j) ** 2, ()), (f(i, j) ** 2 * x2(i, i), ()),
        (f(i, j) * f(i, j) * x2(i, j), (i,)),
        (f(p, q) * x2(p, q), ()), (f(p, q) * x2(p, q), (p,)),
        (f(p, i) * x2(p, i), ()), (f(p, a) * x2(p, a), (a,)),
        (f(i, j) * x2(i, j) + f(a, b) * x2(a, b), ()),
        (f(i, j) * x2(j, a) - 2 * f(a, b) * x2(i, b), (i, a)),
        (f(i, j) * _V("i", "k", "a", "b") * _V("j", "k", "a", "b"), ()),
        (f(i, j) * x2(i, j) / (_e("a") - _e("i")), (a,)),
        (f(i, j) * KroneckerDelta(i, j) * x2(i, i), ()),
    ]
    return ins


def _fock_case(case):
    expr, target = _fock_inputs()[case[1]]
    results = []
    tnames = tuple(str(s) for s in target)
    n = 3
    for op, kind in (("diagonalize_fock", "canonical"),
                     ("block_diagonalize_fock", "block")):
        for explicit in (True, False):
            key = repr(("fock", case[1], op, explicit))
            base = {"key": key, "transitions": 1, "nontrivial": True}
            kw = {"target_idx": list(target)} if explicit else {}
            if not explicit:
                # only meaningful if the Einstein targets are the targets
                terms = expr.args if isinstance(expr, Add) else (expr,)
                if any(gen.sympy_einstein_target(t) != tuple(sorted(
                        tnames, key=gen.name_key)) for t in terms):
                    continue
            e0 = Expr(expr, **kw)
            model = _model(n, kind)
            ref = evaluate(e0.sympy, target, model)
            out, err = safe_call(getattr(e0.copy(), op))
            info = f"{op} on {expr} targets={tnames} explicit={explicit}\n"
            if err:
                if err.startswith("NotImplementedError"):
                    results.append(dict(base, status="ok", nontrivial=False,
                                        outcome=f"{op}:refused"))
                else:
                    results.append(dict(base, status="violation",
                                        outcome="exception",
                                        finding=f"{op}-exception",
                                        detail=info + err))
                continue
            info += f"result: {out.sympy}  target_idx={out.provided_target_idx}\n"
            # the result has to be read with the targets it declares (if any)
            rt = out.provided_target_idx
            if rt is not None and set(rt) != set(target):
                results.append(dict(base, status="violation", outcome="targets",
                                    finding=f"{op}-targets-changed",
                                    detail=info))
                continue
            if rt is None:
                oterms = out.sympy.args if isinstance(out.sympy, Add) \
                    else (out.sympy,)
                if any(t is not S.Zero and not t.is_number and
                       gen.sympy_einstein_target(t) !=
                       tuple(sorted(tnames, key=gen.name_key))
                       for t in oterms):
                    results.append(dict(base, status="violation",
                                        outcome="targets",
                                        finding=f"{op}-targets-lost",
                                        detail=info + "the result declares no "
                                        "targets and the Einstein convention "
                                        "gives different ones"))
                    continue
            got = evaluate(out.sympy, target, model)
            diff = tables_equal(ref, got)
            if diff is not None:
                results.append(dict(base, status="violation", outcome="value",
                                    finding=f"{op}-value-changed",
                                    detail=info + "value changed "
                                    + fmt_diff(diff)))
                continue
            results.append(dict(base, status="ok", outcome=f"{op}:ok"))
    return results


def _sum_inputs():
    B = lambda o, v, s=1: _bracket_expr((tuple(o), tuple(v)), s)  # noqa
    Vy = _V("i", "j", "a", "b") * _ns("y", "i", "j", "a", "b")
    V2 = _V("i", "j", "a", "b") ** 2
    Vx = _V("i", "j", "a", "b") * _ns("x", "i", "a")
    Vxj = _V("i", "j", "a", "b") * _ns("x", "j", "b")
    ins = [
        (Vy / B("ij", "ab") + 2 * Vy / B("ij", "ab") ** 2, ()),
        (V2 / B("i", "a") - V2 / B("j", "b"), ()),
        (V2 / B("i", "a") + V2 / B("j", "a"), ()),
        (V2 / (B("i", "a") * B("ij", "ab")) + V2 / (B("j", "b") *
                                                     B("ij", "ab")), ()),
        (Vx / B("i", "a") + Vxj / B("j", "b"), ()),
        (Vx / B("i", "a") + Vxj / B("i", "a"), ()),
        (Vx / B("j", "b") - Rational(1, 2) * Vx / B("ij", "ab"), ()),
        (_V("i", "j", "a", "b") / B("ij", "ab")
         + _V("i", "j", "a", "b") * _e("i") / B("ij", "ab") ** 2,
         ("i", "j", "a", "b")),
        (V2 * (_e("i") - _e("a")) / B("ij", "ab")
         + V2 * (_e("j") - _e("b")) / B("ij", "ab"), ()),
        (Vy / B("i", "a") + Vy / B("i", "b") + Vy / B("j", "a")
         + Vy / B("j", "b"), ()),
        (V2 / B("i", "a", -1) + V2 / B("j", "b"), ()),
    ]
    return ins


def _sum_case(case):
    expr, tnames = _sum_inputs()[case[1]]
    target = gen.syms(tnames)
    model = _model(2, "canonical")
    results = []
    e0 = Expr(expr, target_idx=list(target), real=True)
    ref = evaluate(e0.sympy, target, model)
    for op, fn in (("factor_eri_parts", factor_eri_parts),
                   ("factor_denom", factor_denom)):
        key = repr(("sum", case[1], op))
        base = {"key": key, "transitions": 1, "nontrivial": True}
        out, err = safe_call(fn, e0.copy())
        info = f"{op} on {e0.sympy} targets={tnames}\n"
        if err:
            if _refused(err):
                results.append(dict(base, status="ok", nontrivial=False,
                                    outcome=f"{op}:refused"))
            else:
                results.append(dict(base, status="violation",
                                    outcome="exception",
                                    finding=f"{op}-exception",
                                    detail=info + err))
            continue
        total = S.Zero
        for part in out:
            total += part.sympy
        info += f"parts: {[str(p.sympy) for p in out]}\n"
        diff = tables_equal(ref, evaluate(total, target, model))
        if diff is not None:
            results.append(dict(base, status="violation", outcome="value",
                                finding=f"{op}-value-changed",
                                detail=info + "sum of the parts differs "
                                + fmt_diff(diff)))
            continue
        results.append(dict(base, status="ok",
                            outcome=f"{op}:{len(out)}parts"))
    return results


def run_case(case):
    if case[0] == "frac":
        return _frac_case(case)
    if case[0] == "fock":
        return _fock_case(case)
    return _sum_case(case)
