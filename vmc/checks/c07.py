"""C07  simplify preserves the value and merges alpha-equivalent terms.

Explored space: sums  a*T1 + b*T2 (+ c*T3)  where T1 runs over the term
grammar (vmc/gen.py: every multiset of <= 2 (3) shapes, every index pattern up
to renaming) and T2 over
  * every renaming of the contracted indices of T1 (injective maps into the
    contracted names plus one fresh name per space)  -> must merge / cancel,
  * every single-slot edit and every transposition of two slots of T1
    (near misses: must not change the value, whatever simplify decides),
for Einstein and explicit target sets, complex / real assumptions and
spin-labelled indices.
Oracle: value tables in the free tensor model (N >= number of index symbols,
hence valid for every orbital space), term count, targets, assumptions.
"""
import itertools

from sympy import Add, S

from adcgen import Expr, simplify

from .. import gen
from ..evalexpr import evaluate, tables_equal, Unsupported
from .common import (space_sizes, free_model, names_of, has_spin, fmt_diff,
                     safe_call)

ID = "C07"
RULE = ("cases = (T1, target set, assumption) with T1 from the term grammar; "
        "each case explores all sums a*T1+b*T2(+c*T3) with T2 a renaming of "
        "contracted indices / single-slot edit / slot transposition of T1; a "
        "state is one such sum up to renaming of contracted indices; "
        "non-trivial = the constructed input has >= 2 terms that share their "
        "tensor multiset (so simplify has to decide whether to merge)")
ASSUMPTIONS = [
    "value equality decided exactly in the free tensor model with one formal "
    "indeterminate per symmetry orbit of tensor entries; N_occ/N_virt >= number"
    " of index symbols per term, so the verdict holds for all orbital spaces",
    "sympy's own canonicalisation on construction of the input sum is part of "
    "the input, not of the property",
]

QUICK_SINGLE = list(gen.SHAPES)
PAIR_POOL = ["V_oovv", "V_ovov", "V_oooo", "W_oovv", "A_oovv", "f_ov", "f_oo",
             "d_ov", "d_vv", "a_oo", "t1", "t2", "t2cc", "X1", "Y2", "v_oovv",
             "D_oovv", "x_ov", "x_oo", "y_ovv", "k_oo", "k_go"]
TRIPLES_QUICK = [("V_oovv", "t1", "t1"), ("f_ov", "t1", "k_oo"),
                 ("V_ovov", "X1", "Y1"), ("d_ov", "t1", "x_oo"),
                 ("f_oo", "x_ov", "x_ov"), ("V_oovv", "t2", "D_oovv")]
TRIPLES_THOROUGH = TRIPLES_QUICK + [
    ("V_oovv", "t2", "t2cc"), ("V_ovov", "t2", "t2"), ("V_oooo", "t2", "t2cc"),
    ("f_ov", "t1", "t2"), ("d_gg", "k_go", "k_gv"), ("W_oovv", "X2", "Y2"),
    ("V_ovov", "t1", "t1"), ("v_oovv", "t1", "t1"), ("A_oovv", "x_ov", "x_ov"),
]
PB = ["1", "-1", "1/2", "2"]
QUICK_BIG_PAIRS = {("V_oovv", "t2"), ("V_oovv", "V_oovv"), ("t2", "t2cc"),
                   ("W_oovv", "Y2"), ("A_oovv", "t2"), ("V_ovov", "t2"),
                   ("V_oovv", "D_oovv"), ("t2", "v_oovv"), ("V_oooo", "t2"),
                   ("V_ovov", "V_ovov"), ("V_oooo", "W_oovv")}


def bounds(tier):
    return {"objects_per_term": 3, "tier": tier,
            "pair_pool": PAIR_POOL,
            "triples": TRIPLES_QUICK if tier == "quick" else TRIPLES_THOROUGH,
            "max_index_multiplicity_pairs": 2 if tier == "quick" else 4,
            "prefactors": PB}


def _max_mult(desc):
    return max(gen.term_indices(desc).values(), default=0)


def generate(tier):
    seen = set()
    out = []

    def add(desc, mode, few_targets=False):
        t = gen.build_term(desc)
        if t is S.Zero or t.is_number:
            return
        ein = gen.einstein_target(desc)
        if gen.sympy_einstein_target(t) != ein:
            return  # construction collapsed an object (delta_ii = 1, ...)
        cnt = gen.term_indices(desc)
        tlist = [None]
        # explicit targets: einstein + one repeated index, and all contracted
        twice = sorted((n for n, c in cnt.items() if c >= 2), key=gen.name_key)
        for n in twice[:1 if few_targets else 2]:
            tlist.append(tuple(sorted(ein + (n,), key=gen.name_key)))
        if ein and not few_targets:
            tlist.append(())
        for tg in tlist:
            key = (gen.canonical_key(desc, tg if tg is not None else ein),
                   tg is None, mode)
            if key in seen:
                continue
            seen.add(key)
            out.append((desc, tg, mode))

    # one object
    for s in QUICK_SINGLE:
        for d in gen.terms((s,)):
            add(d, "complex")
    for s in ["V_oovv", "t2", "f_ov", "d_ov"]:
        for d in gen.terms((s,), exponents=[2]):
            add(d, "complex")
    # two objects
    mm = 2 if tier == "quick" else 4
    for s1, s2 in itertools.combinations_with_replacement(PAIR_POOL, 2):
        nslots = len(gen.slot_spaces((s1, s2)))
        if tier == "quick" and nslots > 6 and \
                (s1, s2) not in QUICK_BIG_PAIRS and \
                (s2, s1) not in QUICK_BIG_PAIRS:
            continue
        for d in gen.terms((s1, s2)):
            if nslots > 6 and _max_mult(d) > mm:
                continue
            if tier == "quick" and nslots > 5 and (
                    len(gen.einstein_target(d)) > 4 or _max_mult(d) > 2):
                continue
            add(d, "complex", few_targets=(tier == "quick" and nslots > 5))
    # three objects
    for tr in (TRIPLES_QUICK if tier == "quick" else TRIPLES_THOROUGH):
        for d in gen.terms(tr):
            if _max_mult(d) > 2:
                continue
            if len(gen.einstein_target(d)) > (2 if tier == "quick" else 4):
                continue
            if tier == "quick" and len(gen.slot_spaces(tr)) > 8 and \
                    len(gen.einstein_target(d)) > 0:
                continue
            add(d, "complex", few_targets=(tier == "quick"))
    # real assumption / declared symmetric tensor names
    for s1, s2 in [("V_oovv", "t2cc"), ("W_oovv", "t2"), ("d_ov", "t1"),
                   ("f_ov", "d_vo"), ("d_oo", "d_oo"), ("t2", "t2cc"),
                   ("d_ov", "d_vo")]:
        for d in gen.terms((s1, s2)):
            if _max_mult(d) > 2:
                continue
            add(d, "real")
            add(d, "sym_d")
    # spin labelled indices
    spin_pool = {"o": ["i_a", "j_a", "i_b", "j_b"],
                 "v": ["a_a", "b_a", "a_b", "b_b"], "g": ["p_a", "p_b"]}
    for shapes in [("V_oovv", "t2"), ("f_ov", "t1"), ("x_ov", "x_ov"),
                   ("d_ov", "X1"), ("V_ovov", "k_oo")]:
        sp = gen.slot_spaces(shapes)
        for names in gen.index_patterns(sp, pools=spin_pool):
            parts = gen.split_names(shapes, names)
            d = ("1", tuple((s, 1, p) for s, p in zip(shapes, parts)))
            if _max_mult(d) > 2:
                continue
            add(d, "complex")
    return out


def describe(case):
    desc, tg, mode = case
    return {"T1": str(gen.build_term(desc)), "target": tg, "mode": mode}


def _rename(desc, mapping):
    return (desc[0], tuple((s, e, tuple(mapping.get(n, n) for n in names))
                           for s, e, names in desc[1]))


def _variations(desc, target):
    """yield (kind, T2 desc)"""
    names = sorted(names_of(desc), key=gen.name_key)
    tset = set(target)
    contracted = [n for n in names if n not in tset]
    # group contracted by (space, spin)
    groups = {}
    for n in contracted:
        groups.setdefault((gen.space_of(n), gen.parse_idx(n)[1]), []).append(n)
    used = set(names)
    per_group = []
    for (sp, spin), members in sorted(groups.items()):
        pool = list(members)
        # one fresh name
        for c in gen.POOL[sp]:
            nm = c + ("_" + spin if spin else "")
            if nm not in used:
                pool.append(nm)
                break
        maps = [dict(zip(members, img))
                for img in itertools.permutations(pool, len(members))]
        per_group.append(maps)
    n_ren = 0
    total = 1
    for m in per_group:
        total *= len(m)
    for combo in itertools.product(*per_group):
        mp = {}
        for m in combo:
            mp.update(m)
        if all(k == v for k, v in mp.items()):
            continue
        n_ren += 1
        if total > 60 and n_ren % (total // 60 + 1):
            continue  # deterministic thinning of huge renaming groups
        yield "rename", _rename(desc, mp)
    # single slot edits / transpositions
    slots = [(oi, si) for oi, (_, _, nm) in enumerate(desc[1])
             for si in range(len(nm))]

    def with_slot(d, oi, si, new):
        objs = list(d[1])
        s, e, nm = objs[oi]
        nm = list(nm)
        nm[si] = new
        objs[oi] = (s, e, tuple(nm))
        return (d[0], tuple(objs))
    for oi, si in slots:
        cur = desc[1][oi][2][si]
        sp, spin = gen.space_of(cur), gen.parse_idx(cur)[1]
        cands = [n for n in names if n != cur and gen.space_of(n) == sp
                 and gen.parse_idx(n)[1] == spin]
        for c in gen.POOL[sp]:
            nm = c + ("_" + spin if spin else "")
            if nm not in used:
                cands.append(nm)
                break
        for new in cands:
            yield "edit", with_slot(desc, oi, si, new)
    for (o1, s1), (o2, s2) in itertools.combinations(slots, 2):
        n1, n2 = desc[1][o1][2][s1], desc[1][o2][2][s2]
        if n1 == n2 or gen.space_of(n1) != gen.space_of(n2) or \
                gen.parse_idx(n1)[1] != gen.parse_idx(n2)[1]:
            continue
        yield "swap", with_slot(with_slot(desc, o1, s1, n2), o2, s2, n1)
    # changed exponent
    for oi, (s, e, nm) in enumerate(desc[1]):
        if gen.SHAPES[s][0] != "delta":
            objs = list(desc[1])
            objs[oi] = (s, e + 1, nm)
            yield "exponent", (desc[0], tuple(objs))


def _assume(mode):
    if mode == "real":
        return {"real": True}, {"V": 1, "f": 1}, {"t2cc": "t2", "t1cc": "t1"}
    if mode == "sym_d":
        return {"sym_tensors": ["d"]}, {"d": 1}, {}
    return {}, {}, {}


def run_case(case):
    desc, tg, mode = case
    ein = gen.einstein_target(desc)
    target_names = tg if tg is not None else ein
    kw, bks_over, ren = _assume(mode)
    results = []
    t1 = gen.build_term(desc)
    seen = set()
    k = 0
    rename_descs = []
    for kind, d2 in _variations(desc, target_names):
        # under the Einstein convention the two terms must have the same
        # target indices for the sum to be meaningful
        if tg is None and gen.einstein_target(d2) != ein:
            continue
        ck = gen.canonical_key(d2, target_names)
        if (kind == "rename", ck) in seen or ck in seen and kind != "rename":
            continue
        seen.add(ck)
        seen.add((kind, ck))
        t2 = gen.build_term(d2)
        if t2 is S.Zero:
            continue
        if gen.sympy_einstein_target(t2) != gen.einstein_target(d2):
            continue
        if kind == "rename":
            rename_descs.append(d2)
        pb = PB[k % len(PB)]
        k += 1
        results.append(_one(case, desc, [d2], [pb], t1, target_names, tg, kind,
                            kw, bks_over, ren, mode))
    # three term sums of alpha-equivalent terms
    if len(rename_descs) >= 2:
        results.append(_one(case, desc, rename_descs[:2], ["2", "-1/2"], t1,
                            target_names, tg, "rename3", kw, bks_over, ren,
                            mode))
    if not results:
        return {"status": "skip", "key": str(case), "outcome": "no variation",
                "nontrivial": False, "transitions": 0}
    return results


def _one(case, desc, d2s, pbs, t1, target_names, tg, kind, kw, bks_over, ren,
         mode):
    sym_in = t1
    for d2, pb in zip(d2s, pbs):
        sym_in = sym_in + gen.PREFS[pb] * gen.build_term(d2)
    key = repr((gen.canonical_key(desc, target_names),
                tuple(gen.canonical_key(d, target_names) for d in d2s),
                tuple(pbs), tg is None, mode))
    base = {"key": key, "transitions": 1, "sample": None}
    target = gen.syms(target_names)
    kwargs = dict(kw)
    if tg is not None:
        kwargs["target_idx"] = list(target)
    ein_expr, err = safe_call(Expr, sym_in, **kwargs)
    if err:
        return dict(base, status="violation", outcome="exception in Expr",
                    nontrivial=False, finding="Expr-constructor-exception",
                    detail=f"Expr({sym_in}, {kwargs}) raised {err}")
    n_in = len(ein_expr)
    assumptions_in = dict(ein_expr.assumptions)
    in_sympy = ein_expr.sympy
    out, err = safe_call(simplify, ein_expr)
    info = f"input: {in_sympy}\ntarget: {target_names} (explicit={tg is not None}) mode={mode}\n"
    if err:
        return dict(base, status="violation", outcome="exception",
                    nontrivial=True, finding="simplify-exception",
                    detail=info + "simplify raised " + err)
    info += f"output: {out.sympy}\n"
    n_out = len(out) if out.sympy is not S.Zero else 0
    nontrivial = isinstance(in_sympy, Add)
    name_sets = [names_of(desc) | set(target_names)] + \
        [names_of(d) | set(target_names) for d in d2s]
    # output may use other names but never more symbols than an input term
    no, nv = space_sizes(name_sets)
    spin = has_spin(set().union(*name_sets))
    model = free_model(no, nv, spin, bks_override=bks_over, rename=ren,
                       tag=mode)
    try:
        tin = evaluate(in_sympy, target, model)
        tout = evaluate(out.sympy, target, model)
    except Unsupported as e:
        return dict(base, status="violation", outcome="not evaluable",
                    nontrivial=nontrivial, finding="oracle-unsupported",
                    detail=info + f"oracle cannot evaluate: {e}")
    diff = tables_equal(tin, tout)
    outcome = f"{kind}:{n_in}->{n_out}"
    if diff is not None:
        return dict(base, status="violation", outcome=outcome + ":value",
                    nontrivial=nontrivial, finding="value-changed",
                    detail=info + "value changed " + fmt_diff(diff))
    if n_out > n_in:
        return dict(base, status="violation", outcome=outcome + ":more-terms",
                    nontrivial=nontrivial, finding="more-terms",
                    detail=info + f"{n_out} terms > {n_in} terms")
    if dict(out.assumptions) != assumptions_in:
        return dict(base, status="violation", outcome=outcome + ":assumptions",
                    nontrivial=nontrivial, finding="assumptions-changed",
                    detail=info + f"assumptions {assumptions_in} -> "
                    f"{out.assumptions}")
    if kind in ("rename", "rename3") and n_out > 1:
        return dict(base, status="violation", outcome=outcome + ":not-merged",
                    nontrivial=nontrivial, finding="alpha-equivalent-not-merged",
                    detail=info + "alpha-equivalent terms were not merged")
    return dict(base, status="ok", outcome=outcome, nontrivial=nontrivial)
