"""helpers shared by the grammar-driven checks"""
import traceback

from sympy import S

from .. import gen, ring
from ..model import (Space, Model, orb_energy, fock_canonical,
                     symbolic_denominator)
from ..evalexpr import evaluate, tables_equal, Table, Unsupported

_models = {}


def space_sizes(name_sets):
    """(n_occ, n_virt) large enough for every term: per term the number of
    occupied (virtual) index symbols plus the number of general ones."""
    no = nv = 1
    for names in name_sets:
        o = len({n for n in names if gen.space_of(n) == "o"})
        v = len({n for n in names if gen.space_of(n) == "v"})
        g = len({n for n in names if gen.space_of(n) == "g"})
        no = max(no, o + g)
        nv = max(nv, v + g)
    return no, nv


def free_model(no, nv, spin=False, defs=None, bks_override=None, rename=None,
               tag=""):
    """cached free model (the object-table cache lives on the model)"""
    key = (no, nv, spin, tag)
    m = _models.get(key)
    if m is None:
        d = {"e": orb_energy}
        d.update(defs or {})
        m = Model(Space(no, nv, spin), defs=d, bks_override=bks_override,
                  rename=rename)
        _models[key] = m
    return m


def names_of(desc):
    out = set()
    for _, _, names in desc[1]:
        out.update(names)
    return out


def has_spin(names):
    return any("_" in n for n in names)


def fmt_diff(diff):
    if diff is None:
        return ""
    k, a, b = diff
    return f"at target assignment {k}: {a!r}  !=  {b!r}"


def safe_call(fn, *args, **kwargs):
    """(result, None) or (None, 'ExcType: msg\\ntraceback')"""
    try:
        return fn(*args, **kwargs), None
    except MemoryError:
        raise       # per-worker memory limit: the harness reports a cap
    except Exception as e:  # noqa
        return None, f"{type(e).__name__}: {e}\n{traceback.format_exc(limit=6)}"
