"""C02  Ground-state perturbation theory agrees with explicit
determinant-space RSPT.

Explored: (partitioning, first_order_singles) in {mp, re} x {False, True}
times every request of the list in `generate` (energies, MP amplitudes, RE
residuals, expectation values, overlap, norm factor, Taylor bookkeeping), each
in a pristine forked interpreter, each in every model space of `bounds`.

Oracle (vmc/fock.py, vmc/rspt.py): the Hamiltonian acts on determinants.
*Off-shell step identities* - the lower-order wavefunctions are built from
FORMAL amplitudes t<n>, t<n>cc with the documented ansatz; the library
expression (a polynomial in t, V, f with at most one orbital-energy bracket)
must equal

  energy(n)            <Phi0| H1 |psi_{n-1}>                (n=0: <Phi0|H0|Phi0>)
  mp_amplitude(n,k)    s_k <Phi_k| R0 ( H1|psi_{n-1}> - sum_m E_m |psi_{n-m}> )
  amplitude_residual   c * <Phi_k| H0 psi_n + H1 psi_{n-1} - sum_m E_m psi_{n-m}>
                       (c a non-zero rational constant)
  expectation_value    order-n coefficient of <Psi|D|Psi>/<Psi|Psi>
  overlap, norm_factor order-n coefficients of <Psi|Psi>, 1/<Psi|Psi>

exactly (formal indeterminates).  By induction on the order these identities
imply the statement of the property for every Hamiltonian of the model space.
*On-shell arbiter (MP)*: an off-shell mismatch is only reported after the
comparison with the amplitudes of the explicitly computed MP series (formal
integrals and orbital energies, (2,2) model) fails too - that comparison is
literally what the property states.
"""
import itertools
from fractions import Fraction

from sympy import S

from adcgen.indices import Index
from .. import gen, ring, fock, rspt
from ..ring import Poly, ZERO, ONE
from ..model import Space, Model, orb_energy, fock_canonical
from ..evalexpr import evaluate, tables_equal, Table, Unsupported
from .common import fmt_diff, safe_call

ID = "C02"
FRESH_FORK = True
CASE_TIMEOUT = 1500
RULE = ("state = (request, partitioning, first_order_singles, model space); "
        "every request runs in a pristine forked interpreter; non-trivial = "
        "the reference value (table) is not identically zero")
ASSUMPTIONS = [
    "canonical orbitals for the closed-form MP amplitudes (f = diag(e)); "
    "formal (general, non-hermitian-looking) f and <pq||rs> elsewhere: bra-ket "
    "partners are independent indeterminates, t<n>cc independent of t<n>",
    "wavefunction ansatz as documented in GroundState.psi (doubles "
    "subtracted)",
    "model spaces listed in bounds(); quantities whose excitation class does "
    "not fit into the model space are zero there on both sides",
]

SPACES = {1: "ph", 2: "pphh", 3: "ppphhh", 4: "pppphhhh"}
IDX = {1: ["ia", "jb"], 2: ["ijab", "jiab", "klcd", "ijba", "i1j2a3b4"],
       3: ["ijkabc", "jikabc", "ijkacb"], 4: ["ijklabcd"]}


def bounds(tier):
    if tier == "quick":
        return {"energy_orders": [0, 1, 2, 3], "amplitude_orders": [1, 2, 3],
                "expectation": [[0, 1], [1, 1], [2, 1], [2, 2]],
                "norm_orders": [2, 3, 4], "models": [[2, 2], [3, 3]],
                "taylor_orders": list(range(1, 9))}
    return {"energy_orders": [0, 1, 2, 3, 4], "amplitude_orders": [1, 2, 3],
            "expectation": [[0, 1], [1, 1], [2, 1], [3, 1], [0, 2], [1, 2],
                            [2, 2], [3, 2]],
            "norm_orders": [2, 3, 4, 5, 6],
            "models": [[2, 2], [3, 3], [3, 2], [2, 3], [4, 4]],
            "taylor_orders": list(range(1, 13))}


def generate(tier):
    b = bounds(tier)
    cases = []
    variants = [("mp", False), ("mp", True), ("re", False), ("re", True)]
    for var, singles in variants:
        for n in b["energy_orders"]:
            cases.append(("energy", var, singles, n))
        for n in b["amplitude_orders"]:
            for k in range(1, 2 * n + 1):
                if tier == "quick" and (k > 3 or (n == 3 and (
                        (var, singles) != ("mp", False)))):
                    continue
                if n >= 3 and k >= 3 and (var, singles) != ("mp", False):
                    continue
                if n >= 3 and k >= 4:
                    continue
                idxs = IDX[k] if (n <= 2 and k <= 2) else IDX[k][:1]
                if tier == "quick":
                    idxs = idxs[:3] if k <= 2 else idxs[:1]
                for ix in idxs:
                    cases.append(("amplitude", var, singles, n, k, ix))
        for n, k in b["expectation"]:
            if (n, k) == (3, 2) and (var, singles) != ("mp", False):
                continue
            cases.append(("expectation", var, singles, n, k))
        for n in b["norm_orders"]:
            cases.append(("overlap", var, singles, n))
            cases.append(("norm_factor", var, singles, n))
    for n in b["taylor_orders"]:
        for mo in (1, 2, 3):
            if mo == 1 and n > 8:
                continue    # the library enumerates (n)^(n) tuples there
            cases.append(("taylor", n, mo))
    for n in range(0, 7 if tier == "quick" else 9):
        for L in (1, 2, 3, 4):
            for mo in (0, 1, 2):
                cases.append(("term_orders", n, L, mo))
    return cases


def describe(case):
    return {"request": case[0], "args": case[1:]}


def cost(case):
    """rough library cost (seconds) used to schedule long cases first"""
    kind = case[0]
    if kind == "amplitude":
        n, k = case[3], case[4]
        return {1: 0.2, 2: 3 * k, 3: 2 * 8 ** (k - 1)}.get(n, 1)
    if kind == "expectation":
        return 2 * 5 ** (case[3] - 1) * case[4] ** 2
    if kind in ("overlap", "norm_factor"):
        return case[3]
    return 0.1


# ------------------------------------------------------------------ models
def _model_sizes(case, tier_models):
    """model spaces in which the case is evaluated"""
    kind = case[0]
    out = []
    for no, nv in tier_models:
        if kind == "amplitude":
            k = case[4]
            if min(no, nv) < k:
                continue
            if (no, nv) == (4, 4) and k < 4:
                continue
            if k >= 3 and (no, nv) not in ((3, 3), (4, 4)):
                continue
            if case[3] >= 3 and (no, nv) not in ((2, 2), (3, 3)) and k < 3:
                continue
        elif kind == "energy":
            if (no, nv) == (4, 4) and case[3] < 3:
                continue
            if case[3] >= 4 and (no, nv) not in ((2, 2), (3, 3)):
                continue
        elif kind == "expectation":
            if (no, nv) == (4, 4):
                continue
            if case[3] >= 3 and (no, nv) != (2, 2):
                continue
            if case[4] == 2 and case[3] >= 2 and (no, nv) not in ((2, 2),):
                continue
        elif kind in ("overlap", "norm_factor"):
            if (no, nv) == (4, 4) and case[3] < 4:
                continue
            if case[3] >= 5 and (no, nv) != (2, 2):
                continue
        out.append((no, nv))
    return out


def _formal_model(no, nv, canonical):
    defs = {"e": orb_energy}
    if canonical:
        defs["f"] = fock_canonical
    return Model(Space(no, nv, False), defs=defs)


def _energy_fn(p):
    return ring.var(f"e{p}")


def _gs(var, singles):
    from adcgen import Operators, GroundState
    return GroundState(Operators(var), first_order_singles=singles)


# ------------------------------------------------------- reference values
def _formal_energy(ham, n, singles):
    fs, model = ham.fs, ham.model
    if n == 0:
        return ham.apply("h0", {fs.ref: ONE}).get(fs.ref, ZERO)
    psi = rspt.formal_psi(fs, model, n - 1, singles)
    return ham.apply("h1", psi).get(fs.ref, ZERO)


def _rhs_state(ham, n, singles, include_h0):
    """H1|psi_{n-1}> - sum_{m>=1} E_m |psi_{n-m}>  (+ (H0 - E_0)|psi_n>)"""
    fs, model = ham.fs, ham.model
    st = ham.apply("h1", rspt.formal_psi(fs, model, n - 1, singles))
    for m in range(1, n + 1):
        em = _formal_energy(ham, m, singles)
        if em.t:
            fock.add_into(st, rspt.formal_psi(fs, model, n - m, singles), -em)
    if include_h0:
        pn = rspt.formal_psi(fs, model, n, singles)
        fock.add_into(st, ham.apply("h0", pn))
        fock.add_into(st, pn, -_formal_energy(ham, 0, singles))
    return st


def _amp_table(fs, state, names, target, transform=None):
    """table over target (tuple of Index, named names[k]) of
    transform(<Phi_k|state>) with <Phi_k| the excited determinant of the
    documented string; names: occ names then virt names in STRING order"""
    occ_pos = [k for k, n in enumerate(names) if gen.space_of(n) == "o"]
    virt_pos = [k for k, n in enumerate(names) if gen.space_of(n) == "v"]
    rng = [fs.occ if gen.space_of(n) == "o" else fs.virt for n in names]
    data = {}
    for asg in itertools.product(*rng):
        virt = tuple(asg[k] for k in virt_pos)
        occ = tuple(asg[k] for k in occ_pos)
        r = rspt.excited_det(fs, virt, occ)
        if r is None:
            continue
        s, d = r
        c = state.get(d)
        if c is None:
            continue
        v = transform(d, c) if transform else c
        if s != 1:
            v = -v
        if v.t:
            data[asg] = v
    return Table(target, data)


def _psi_series(fs, model, nmax, singles, bra):
    return [rspt.formal_psi(fs, model, n, singles, bra=bra)
            for n in range(nmax + 1)]


def _operator_terms(fs, model, k, name="d"):
    """1/(k!)^2 sum d^{p..}_{q..} a+_p .. a_q ..  (annihilators reversed) =
    sum over unique creator / annihilator sets"""
    allorb = fs.occ + fs.virt
    terms = []
    for up in itertools.combinations(allorb, k):
        for lo in itertools.combinations(allorb, k):
            c = model.value("anti", name, 0, up, lo)
            ops = tuple([("+", p) for p in up] +
                        [("-", q) for q in reversed(lo)])
            terms.append((ops, c))
    return terms


# ----------------------------------------------------------------- on-shell
_onshell_cache = {}


def _onshell_model(no, nv, nmax, singles):
    """model whose amplitude tensors t<n>, t<n>cc take the values of the
    explicitly computed MP wavefunctions (canonical orbitals)"""
    key = (no, nv, nmax)
    hit = _onshell_cache.get(key)
    if hit:
        return hit
    fs = fock.FockSpace(no, nv)
    base = _formal_model(no, nv, True)
    ham = rspt.Hamiltonian(fs, base, "mp")
    psi, en = rspt.rspt_mp(ham, nmax, _energy_fn)

    def make(order, cc):
        def h(model, kind, name, bks, u, l):
            v = rspt.amplitude_of_state(fs, psi[order], u, l)
            return _conj(v) if cc else v
        return h
    defs = {"e": orb_energy, "f": fock_canonical}
    for n in range(1, nmax + 1):
        defs[f"t{n}"] = make(n, False)
        defs[f"t{n}cc"] = make(n, True)
    m = Model(Space(no, nv, False), defs=defs)
    _onshell_cache[key] = (m, fs, ham, psi, en)
    return _onshell_cache[key]


def _conj(p):
    """complex conjugation of a value: X[u|l] <-> X[l|u] for every formal
    tensor entry (orbital energies and brackets are real)"""
    if not p.t:
        return p
    out = {}
    for m, c in p.t.items():
        mm = tuple(sorted(_conj_atom(a) for a in m))
        out[mm] = out.get(mm, 0) + c
    return Poly({m: c for m, c in out.items() if c != 0})


_conj_map = {}


def _conj_atom(a):
    b = _conj_map.get(a)
    if b is None:
        name = ring.atom_name(a)
        b = a
        if "|" in name and name.endswith("]") and not name.startswith("1/"):
            head, rest = name.split("[", 1)
            u, l = rest[:-1].split("|")
            b = ring._atom(f"{head}[{l}|{u}]")
        _conj_map[a] = b
    return b


# ------------------------------------------------------------------ runner
def run_case(case):
    kind = case[0]
    if kind == "taylor":
        return _run_taylor(case)
    if kind == "term_orders":
        return _run_term_orders(case)
    var, singles = case[1], case[2]
    tier_models = [tuple(m) for m in bounds(_TIER[0])["models"]]
    sizes = _model_sizes(case, tier_models)
    gs = _gs(var, singles)
    # ---- call the library once
    if kind == "energy":
        lib, err = safe_call(gs.energy, case[3])
        target_names = ()
    elif kind == "amplitude":
        n, k, ix = case[3], case[4], case[5]
        lib, err = safe_call(gs.amplitude, n, SPACES[k], ix)
        from adcgen.indices import split_idx_string
        target_names = tuple(split_idx_string(ix))
    elif kind == "expectation":
        lib, err = safe_call(gs.expectation_value, case[3], case[4])
        target_names = ()
    elif kind == "overlap":
        lib, err = safe_call(gs.overlap, case[3])
        target_names = ()
    elif kind == "norm_factor":
        lib, err = safe_call(gs.norm_factor, case[3])
        target_names = ()
    else:
        raise ValueError(kind)
    results = []
    if err:
        return {"status": "violation", "key": repr(case), "transitions": 1,
                "outcome": "exception", "nontrivial": True,
                "finding": f"{kind}-exception", "detail": err}
    target = gen.syms(target_names)
    for no, nv in sizes:
        key = repr((case, (no, nv)))
        base = {"key": key, "transitions": 1}
        info = f"request {case} model=({no},{nv})\n"
        try:
            res = _decide(case, gs, lib, target, target_names, no, nv)
        except Unsupported as e:
            results.append(dict(base, status="violation",
                                outcome="unsupported", nontrivial=True,
                                finding="operator-or-unknown-node-in-result",
                                detail=info + str(e)))
            continue
        status, outcome, nontrivial, finding, detail = res
        r = dict(base, status=status, outcome=f"{kind}:{outcome}",
                 nontrivial=nontrivial)
        if status == "violation":
            r["finding"] = finding
            r["detail"] = info + f"library result: {str(lib)[:1500]}\n" + detail
        results.append(r)
    return results


_TIER = ["quick"]
_orig_generate = generate


def generate(tier):  # noqa: F811  (remember the tier for the workers)
    _TIER[0] = tier
    return _orig_generate(tier)


def _const_ratio(lib_t, ref_t):
    """non-zero rational c with lib == c*ref, or None"""
    if not ref_t.data and not lib_t.data:
        return Fraction(1)
    if not ref_t.data or not lib_t.data:
        return None
    k = sorted(ref_t.data)[0]
    a, b = lib_t.data.get(k), ref_t.data[k]
    if a is None:
        return None
    # ratio of the coefficients of one monomial of b
    m = sorted(b.t)[0]
    if m not in a.t:
        return None
    c = Fraction(a.t[m]) / Fraction(b.t[m])
    if c == 0:
        return None
    return c


def _decide(case, gs, lib, target, names, no, nv):
    kind, var, singles = case[0], case[1], case[2]
    fs = fock.FockSpace(no, nv)
    canonical = (kind == "amplitude" and var == "mp")
    model = _formal_model(no, nv, canonical)
    ham = rspt.Hamiltonian(fs, model, var)
    lib_t = evaluate(lib, target, model, expand=True)
    scalar = False
    if kind == "energy":
        ref = _formal_energy(ham, case[3], singles)
        ref_t = Table((), {(): ref} if ref.t else {})
        scalar = True
    elif kind == "amplitude":
        n, k = case[3], case[4]
        if var == "mp":
            st = _rhs_state(ham, n, singles, False)

            def tr(d, c):
                return c * ring.inverse(rspt.e0_diff(fs, _energy_fn, d)) * \
                    rspt.class_sign(k)
            ref_t = _amp_table(fs, st, names, target, tr)
        else:
            st = _rhs_state(ham, n, singles, True)
            ref_t = _amp_table(fs, st, names, target)
            c = _const_ratio(lib_t, ref_t)
            if c is None:
                diff = tables_equal(lib_t, ref_t)
                return ("violation", "residual-not-proportional", True,
                        "re-residual-differs-from-projected-rspt-equation",
                        "library residual is not a rational multiple of the "
                        "projected RSPT equation: " + fmt_diff(diff))
            ref_t = Table(ref_t.axes, {kk: v * c for kk, v in
                                       ref_t.data.items()})
    elif kind in ("expectation", "overlap", "norm_factor"):
        n = case[3]
        ket = _psi_series(fs, model, n, singles, False)
        bra = _psi_series(fs, model, n, singles, True)
        sser = rspt.series_dot(bra, ket, n)
        if kind == "overlap":
            ref = sser[n]
        else:
            x = [ZERO] + sser[1:]
            inv = rspt.binomial_series(x, -1, n)
            if kind == "norm_factor":
                ref = inv[n]
            else:
                terms = _operator_terms(fs, model, case[4])
                dket = [rspt.apply_terms(terms, st) if st else {}
                        for st in ket]
                num = rspt.series_dot(bra, dket, n)
                ref = rspt.series_mul(num, inv, n)[n]
        ref_t = Table((), {(): ref} if ref.t else {})
        scalar = True
    nontrivial = bool(ref_t.data)
    diff = tables_equal(lib_t, ref_t)
    shape = f"{var}:s{int(singles)}:n{case[3]}:({no},{nv}):nz{int(nontrivial)}"
    if diff is None:
        return ("ok", shape, nontrivial, None, None)
    # ---- off-shell mismatch: on-shell arbiter (MP, (2,2) only)
    detail = "off-shell step identity violated: " + fmt_diff(diff)
    if var == "mp" and (no, nv) == (2, 2) and case[3] <= 3:
        ok, odetail = _onshell(case, gs, lib, target, names, no, nv)
        if ok:
            return ("ok", shape + ":offshell-mismatch-onshell-equal",
                    nontrivial, None, None)
        detail += "\non-shell comparison (explicit MP series): " + odetail
    return ("violation", shape + ":value", nontrivial,
            f"{kind}-{var}-differs-from-determinant-space-rspt", detail)


def _onshell(case, gs, lib, target, names, no, nv):
    kind, var, singles = case[0], case[1], case[2]
    n = case[3]
    nmax = max(n, 1)
    model, fs, ham, psi, en = _onshell_model(no, nv, 3, singles)
    lib_t = evaluate(lib, target, model, expand=True)
    if kind == "energy":
        ref = en[n]
        ref_t = Table((), {(): ref} if ref.t else {})
    elif kind == "amplitude":
        k = case[4]

        def tr(d, c):
            return c * rspt.class_sign(k)
        ref_t = _amp_table(fs, psi[n], names, target, tr)
    else:
        ket = psi[:n + 1]
        bra = [{d: _conj(c) for d, c in st.items()} for st in ket]
        sser = rspt.series_dot(bra, ket, n)
        if kind == "overlap":
            ref = sser[n]
        else:
            x = [ZERO] + sser[1:]
            inv = rspt.binomial_series(x, -1, n)
            if kind == "norm_factor":
                ref = inv[n]
            else:
                terms = _operator_terms(fs, model, case[4])
                dket = [rspt.apply_terms(terms, st) if st else {}
                        for st in ket]
                num = rspt.series_dot(bra, dket, n)
                ref = rspt.series_mul(num, inv, n)[n]
        ref_t = Table((), {(): ref} if ref.t else {})
    diff = tables_equal(lib_t, ref_t)
    return diff is None, ("equal" if diff is None else fmt_diff(diff))


# ------------------------------------------------- Taylor / bookkeeping
def _compositions(n, length, min_order):
    if length == 1:
        if n >= min_order:
            yield (n,)
        return
    for first in range(min_order, n - min_order * (length - 1) + 1):
        for rest in _compositions(n - first, length - 1, min_order):
            yield (first,) + rest


def _run_taylor(case):
    _, n, mo = case
    gs = _gs("mp", False)
    lib, err = safe_call(gs.expand_norm_factor, n, mo)
    base = {"key": repr(case), "transitions": 1, "nontrivial": n >= mo}
    if err:
        return dict(base, status="violation", outcome="exception",
                    finding="expand_norm_factor-exception", detail=err)
    # library structure -> {sorted tuple of orders: coefficient}
    got = {}
    for pref, orders in lib:
        for o in orders:
            k = tuple(o)
            got[k] = got.get(k, 0) + Fraction(int(S(pref).p), int(S(pref).q))
    want = {}
    if n < mo:
        want[(n,)] = Fraction(1)
    else:
        for ex in range(1, n // mo + 1):
            for comp in _compositions(n, ex, mo):
                want[comp] = want.get(comp, 0) + Fraction((-1) ** ex)
    if got != want:
        return dict(base, status="violation", outcome="taylor:value",
                    finding="expand_norm_factor-wrong-coefficients",
                    detail=f"expand_norm_factor({n}, {mo}) = {lib}\nexpected "
                    f"order-{n} part of 1/(1+x), x = sum_(k>={mo}) S_k: {want}")
    return dict(base, status="ok", outcome=f"taylor:terms{len(want)}")


def _run_term_orders(case):
    from adcgen.func import gen_term_orders
    _, n, L, mo = case
    lib, err = safe_call(gen_term_orders, n, L, mo)
    base = {"key": repr(case), "transitions": 1, "nontrivial": True}
    if err:
        return dict(base, status="violation", outcome="exception",
                    finding="gen_term_orders-exception", detail=err)
    got = sorted(tuple(x) for x in lib)
    want = sorted(_compositions(n, L, mo))
    if got != want or len(set(got)) != len(got):
        return dict(base, status="violation", outcome="orders:value",
                    finding="gen_term_orders-wrong-compositions",
                    detail=f"gen_term_orders({n},{L},{mo}) = {lib}\nexpected "
                    f"{want}")
    return dict(base, status="ok", outcome=f"orders:{len(want)}")
