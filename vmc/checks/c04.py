"""C04  Intermediate states are orthonormal order by order.

Explored: ADC variant in {pp, ip, ea, dip, dea} x (partitioning, first-order
singles) x every pair of the two lowest excitation classes (both orders of the
pair; third class at low order in the thorough tier) x perturbation order x
index strings; every request in a pristine forked interpreter, evaluated in
every model space of `bounds`.

Oracle (closed form, no ISR construction needed): with FORMAL ground-state
amplitudes t<n>, t<n>cc (the property says 'for every choice of ground-state
amplitudes') the value table of overlap_isr over all assignments of the two
index sets must be

    order 0, equal classes :  sign(sort I) * sign(sort J) * [I == J as sets]
                              (antisymmetrised product of Kronecker deltas)
    anything else          :  the zero polynomial.

Precursor overlap: table(I, J) == table(J, I) in the real model (t<n>cc
identified with t<n>), for equal and for different classes (two requests).
Bookkeeping: expand_S_taylor against the Taylor coefficients of (1+x)^(-1/2)
computed with fractions; _generate_lower_spaces / validate_space against a
direct recomputation.
"""
import itertools
from fractions import Fraction

from sympy import S

from .. import gen, ring
from ..ring import Poly, ZERO, ONE
from ..model import Space, Model, sort_sign
from ..evalexpr import evaluate, tables_equal, Table, Unsupported
from ..isr import VARIANT_CLASSES, space_string
from .common import fmt_diff, safe_call
from .c02 import _compositions

ID = "C04"
FRESH_FORK = True
CASE_TIMEOUT = 2400
RULE = ("state = (request, ADC variant, partitioning, singles, classes, "
        "order, index strings, model space); non-trivial = the library "
        "expression is not identically zero before evaluation (cancellation "
        "has to happen) or the expected table is non-zero")
ASSUMPTIONS = [
    "formal ground-state amplitudes (independent indeterminates per orbit of "
    "entries, t<n>cc independent of t<n>); real model for the symmetry of the "
    "precursor overlap",
    "model spaces in bounds(); classes that do not fit into a model space are "
    "skipped there",
]

OCC = "ijklmno"
VIRT = "abcdefg"


def _idx_strings(cls, which, swap=False):
    """index strings for bra (which=0) / ket (which=1); swap: the first two
    names of a space are listed in descending order"""
    no, nv = cls
    off = which * 3
    o = list(OCC[off:off + no])
    v = list(VIRT[off:off + nv])
    if swap:
        if len(o) >= 2:
            o[0], o[1] = o[1], o[0]
        elif len(v) >= 2:
            v[0], v[1] = v[1], v[0]
    return "".join(o) + "".join(v)


def bounds(tier):
    if tier == "quick":
        return {"orders_same_lowest": [0, 1, 2], "orders_other": [0, 1, 2],
                "variants": ["pp", "ip", "ea", "dip", "dea"],
                "gs": [["mp", False]],
                "gs_extra": "re / first-order singles for pp, ip lowest class",
                "models": {"pp": [[2, 2], [3, 3]], "ip": [[2, 1], [2, 2]],
                           "ea": [[1, 2], [2, 2]], "dip": [[3, 1]],
                           "dea": [[1, 3]]}}
    return {"orders_same_lowest": [0, 1, 2, 3], "orders_other": [0, 1, 2, 3],
            "variants": ["pp", "ip", "ea", "dip", "dea"],
            "gs": [["mp", False], ["mp", True], ["re", False]],
            "models": {"pp": [[2, 2], [3, 3]], "ip": [[2, 1], [2, 2], [3, 2]],
                       "ea": [[1, 2], [2, 2], [2, 3]],
                       "dip": [[3, 1], [3, 2]], "dea": [[1, 3], [2, 3]]}}


def generate(tier):
    _TIER[0] = tier
    b = bounds(tier)
    cases = []
    for variant in b["variants"]:
        classes = VARIANT_CLASSES[variant][:2]
        gss = [tuple(g) for g in b["gs"]]
        for gsv, singles in gss:
            for c1 in classes:
                for c2 in classes:
                    lowest = (c1 == classes[0] and c2 == classes[0])
                    orders = b["orders_same_lowest"] if lowest else \
                        b["orders_other"]
                    for n in orders:
                        if n == 3 and c1 == classes[1] and c2 == classes[1]:
                            continue    # > 20 min in the library
                        if (gsv, singles) != ("mp", False) and not lowest \
                                and n > 2:
                            continue
                        cases.append(("overlap_isr", variant, gsv, singles,
                                      c1, c2, n))
                        cases.append(("overlap_precursor", variant, gsv,
                                      singles, c1, c2, n))
                        if n <= 1 and (gsv, singles) == ("mp", False) and \
                                max(c1) >= 2:
                            # bra index string in descending order
                            cases.append(("overlap_isr", variant, gsv,
                                          singles, c1, c2, n, "b"))
        if tier == "quick" and variant in ("pp", "ip"):
            c = classes[0]
            for gsv, singles in (("mp", True), ("re", False)):
                for n in (0, 1, 2):
                    cases.append(("overlap_isr", variant, gsv, singles, c, c,
                                  n))
                    cases.append(("overlap_precursor", variant, gsv, singles,
                                  c, c, n))
        if variant in ("ip", "ea") or tier == "thorough":
            # third order with first-order singles: the first order at which
            # the higher norm-factor terms of the lower-class projector matter
            for c1, c2 in ((classes[0], classes[1]), (classes[1], classes[0])):
                cases.append(("overlap_isr", variant, "mp", True, c1, c2, 3))
        if tier == "thorough" and len(VARIANT_CLASSES[variant]) > 2:
            c3 = VARIANT_CLASSES[variant][2]
            for c in (classes[0], c3):
                cases.append(("overlap_isr", variant, "mp", False, c3, c, 0))
                cases.append(("overlap_isr", variant, "mp", False, c, c3, 1))
    for n in range(0, 9 if tier == "quick" else 13):
        for mo in (1, 2, 3):
            if mo == 1 and n > 8:
                continue    # the library enumerates (n)^(n) tuples there
            cases.append(("s_taylor", n, mo))
    for variant in b["variants"]:
        cases.append(("spaces", variant))
    # cheap cases first
    cases.sort(key=lambda c: (c[0] in ("overlap_isr", "overlap_precursor"),
                              c[6] if len(c) > 6 else 0))
    return cases


_TIER = ["quick"]


def cost(case):
    if case[0] in ("s_taylor", "spaces"):
        return 0.1
    c1, c2, n = case[4], case[5], case[6]
    return 8 ** n * (sum(c1) + sum(c2)) ** 2


def describe(case):
    return {"request": case[0], "args": case[1:]}


def _isr(variant, gsv, singles):
    from adcgen import Operators, GroundState, IntermediateStates
    return IntermediateStates(
        GroundState(Operators(gsv), first_order_singles=singles), variant)


def _model(no, nv, real):
    rename = {}
    if real:
        for n in range(1, 8):
            rename[f"t{n}cc"] = f"t{n}"
    return Model(Space(no, nv, False), rename=rename)


def _expected_delta(cls1, cls2, names1, names2, target, fs_occ, fs_virt):
    """antisymmetrised delta table over (names1 + names2)"""
    data = {}
    if cls1 != cls2:
        return Table(target, data)
    rng = [fs_occ if gen.space_of(n) == "o" else fs_virt
           for n in names1 + names2]
    n1 = len(names1)

    def split(asg, names):
        occ = tuple(a for a, n in zip(asg, names) if gen.space_of(n) == "o")
        virt = tuple(a for a, n in zip(asg, names) if gen.space_of(n) == "v")
        return occ, virt
    for asg in itertools.product(*rng):
        o1, v1 = split(asg[:n1], names1)
        o2, v2 = split(asg[n1:], names2)
        s1o, o1 = sort_sign(o1)
        s1v, v1 = sort_sign(v1)
        s2o, o2 = sort_sign(o2)
        s2v, v2 = sort_sign(v2)
        s = s1o * s1v * s2o * s2v
        if s and o1 == o2 and v1 == v2:
            data[asg] = ring.const(s)
    return Table(target, data)


def run_case(case):
    kind = case[0]
    if kind == "s_taylor":
        return _run_taylor(case)
    if kind == "spaces":
        return _run_spaces(case)
    _, variant, gsv, singles, c1, c2, n = case[:7]
    swap = len(case) > 7
    isr = _isr(variant, gsv, singles)
    names1 = tuple(_idx_strings(c1, 0, swap))
    names2 = tuple(_idx_strings(c2, 1))
    block = f"{space_string(c1)},{space_string(c2)}"
    indices = f"{''.join(names1)},{''.join(names2)}"
    fn = isr.overlap_isr if kind == "overlap_isr" else isr.overlap_precursor
    lib, err = safe_call(fn, n, block, indices)
    if err:
        return {"status": "violation", "key": repr(case), "transitions": 1,
                "outcome": "exception", "nontrivial": True,
                "finding": f"{kind}-exception", "detail": err}
    lib2 = None
    if kind == "overlap_precursor":
        # partner with exchanged index sets
        block2 = f"{space_string(c2)},{space_string(c1)}"
        indices2 = f"{''.join(names2)},{''.join(names1)}"
        lib2, err = safe_call(isr.overlap_precursor, n, block2, indices2)
        if err:
            return {"status": "violation", "key": repr(case),
                    "transitions": 2, "outcome": "exception",
                    "nontrivial": True, "finding": f"{kind}-exception",
                    "detail": err}
    target = gen.syms(names1 + names2)
    nonzero_expr = S(lib) != 0
    results = []
    models = bounds(_TIER[0])["models"][variant]
    for no, nv in models:
        if max(c1[0], c2[0]) > no or max(c1[1], c2[1]) > nv:
            continue
        if (no, nv) == (3, 3) and n >= 3:
            continue
        key = repr((case, (no, nv)))
        base = {"key": key, "transitions": 1 if lib2 is None else 2}
        info = (f"{kind}({n}, '{block}', '{indices}') variant={variant} "
                f"gs={gsv} singles={singles} model=({no},{nv})\n")
        try:
            if kind == "overlap_isr":
                model = _model(no, nv, False)
                lib_t = evaluate(lib, target, model, expand=True)
                want = _expected_delta(c1, c2, names1, names2, target,
                                       list(range(no)),
                                       list(range(no, no + nv))) \
                    if n == 0 else Table(target, {})
                diff = tables_equal(lib_t, want)
                nontrivial = bool(want.data) or nonzero_expr
                if diff is not None:
                    results.append(dict(
                        base, status="violation", outcome="isr-overlap:value",
                        nontrivial=nontrivial,
                        finding=_finding_overlap(c1, c2, n),
                        detail=info + "intermediate states are not "
                        "orthonormal: expected vs library: " + fmt_diff(diff)
                        + f"\nlibrary expression: {str(lib)[:1500]}"))
                    continue
                results.append(dict(
                    base, status="ok", nontrivial=nontrivial,
                    outcome=f"isr-overlap:{variant}:n{n}:same{int(c1 == c2)}:"
                    f"exprzero{int(not nonzero_expr)}"))
            else:
                model = _model(no, nv, True)
                t1 = evaluate(lib, target, model, expand=True)
                t2 = evaluate(lib2, tuple(gen.syms(names2 + names1)), model,
                              expand=True)
                # reorder t2's axes to (names1 + names2)
                pos = [t2.axes.index(a) for a in target]
                t2r = Table(target, {tuple(k[i] for i in pos): v
                                     for k, v in t2.data.items()})
                diff = tables_equal(t1, t2r)
                nontrivial = bool(t1.data)
                if diff is not None:
                    results.append(dict(
                        base, status="violation",
                        outcome="precursor-overlap:asymmetric",
                        nontrivial=nontrivial,
                        finding="precursor-overlap-not-symmetric",
                        detail=info + "S(I,J) vs S(J,I) in the real model: "
                        + fmt_diff(diff)))
                    continue
                results.append(dict(
                    base, status="ok", nontrivial=nontrivial,
                    outcome=f"precursor-overlap:{variant}:n{n}:"
                    f"nz{int(nontrivial)}"))
        except Unsupported as e:
            results.append(dict(base, status="violation",
                                outcome="unsupported", nontrivial=True,
                                finding="operator-or-unknown-node-in-result",
                                detail=info + str(e)))
    return results


def _finding_overlap(c1, c2, n):
    if c1 != c2:
        return "isr-overlap-between-different-classes-not-zero"
    if n == 0:
        return "isr-overlap-zeroth-order-not-antisymmetrised-delta"
    return "isr-overlap-higher-order-not-zero"


def _run_taylor(case):
    _, n, mo = case
    isr = _isr("pp", "mp", False)
    lib, err = safe_call(isr.expand_S_taylor, n, mo)
    base = {"key": repr(case), "transitions": 1, "nontrivial": n >= mo}
    if err:
        if n == 0:
            return dict(base, status="ok", outcome="taylor:refused-order-0")
        return dict(base, status="violation", outcome="exception",
                    finding="expand_S_taylor-exception", detail=err)
    got = {}
    for pref, orders in lib:
        p = S(pref)
        for o in orders:
            k = tuple(o)
            got[k] = got.get(k, 0) + Fraction(int(p.p), int(p.q))
    want = {}
    if n < mo:
        want[(n,)] = Fraction(1)
    else:
        coef = Fraction(1)
        for ex in range(1, n // mo + 1):
            coef = coef * (Fraction(-1, 2) - (ex - 1)) / ex
            for comp in _compositions(n, ex, mo):
                want[comp] = want.get(comp, 0) + coef
    if got != want:
        return dict(base, status="violation", outcome="taylor:value",
                    finding="expand_S_taylor-wrong-coefficients",
                    detail=f"expand_S_taylor({n}, {mo}) = {lib}\nexpected "
                    f"order-{n} part of (1+x)^(-1/2): {want}")
    return dict(base, status="ok", outcome=f"taylor:terms{len(want)}")


def _run_spaces(case):
    _, variant = case
    isr = _isr(variant, "mp", False)
    lowest = VARIANT_CLASSES[variant][0]
    res = []
    n = 0
    for no in range(0, 5):
        for nv in range(0, 5):
            if no + nv == 0:
                continue
            sp = "p" * nv + "h" * no
            n += 1
            # valid iff reachable from the lowest class by adding ph pairs
            k = no - lowest[0]
            want_valid = k >= 0 and nv - lowest[1] == k
            # lower spaces: remove ph pairs while something remains
            want_lower = []
            o, v = no, nv
            while min(o, v) > 0 and (o - 1) + (v - 1) > 0:
                o, v = o - 1, v - 1
                want_lower.append("p" * v + "h" * o)
            got_valid, e1 = safe_call(isr.validate_space, sp)
            got_lower, e2 = safe_call(isr._generate_lower_spaces, sp)
            if e1 or e2:
                res.append({"status": "violation", "key": repr((case, sp)),
                            "transitions": 2, "outcome": "exception",
                            "nontrivial": True, "finding": "spaces-exception",
                            "detail": str(e1 or e2)})
                continue
            ok_lower = sorted(got_lower) == sorted(want_lower)
            # validate_space of pp also accepts 'hp'
            if bool(got_valid) != want_valid or not ok_lower:
                res.append({"status": "violation", "key": repr((case, sp)),
                            "transitions": 2, "outcome": "spaces:value",
                            "nontrivial": True,
                            "finding": "space-bookkeeping-wrong",
                            "detail": f"variant {variant} space {sp}: "
                            f"validate_space={got_valid} (expected "
                            f"{want_valid}), lower spaces={got_lower} "
                            f"(expected {want_lower})"})
    res.append({"status": "ok", "key": "agg:" + repr(case),
                "nontrivial": True, "outcome": "aggregate", "transitions": 0,
                "agg": {"states": n - (len(res)), "nontrivial": n - len(res),
                        "transitions": 2 * n,
                        "outcomes": {f"spaces:{variant}": n - len(res)}}})
    return res
