"""C20  simplify_unitary preserves the value for orthogonal tensors.

Explored: every product of 1..3 factors U (NonSymmetricTensor or (1,1)
AntiSymmetricTensor, exponent 1..2) whose 2..6 slots take every index pattern
over a pool of 4 occupied indices, times 0..2 remainder tensors that do / do
not carry the indices, for Einstein and explicit target sets and
evaluate_deltas in {False, True}.
Oracle: U = Cayley transform (1-A)(1+A)^-1 of a formal skew matrix A (N = 2, 3)
and its reflection U*diag(-1,1,..): identities of rational functions on a chart
dense in O(N).  Untouched-ness: where an independent predicate finds no
resolvable pair the output must be identical to the input.
"""
import itertools

from sympy import S, Pow, Add

from adcgen import Expr, simplify_unitary
from adcgen.sympy_objects import (AntiSymmetricTensor, NonSymmetricTensor,
                                  KroneckerDelta)

from .. import gen, ring
from ..ring import Poly, ONE, ZERO
from ..model import Model, Space
from ..evalexpr import evaluate, tables_equal, Unsupported
from .common import fmt_diff, safe_call

ID = "C20"
RULE = ("state = (U class, exponents, index pattern of the U slots over a "
        "4-index occupied pool, remainder tensors, target set, "
        "evaluate_deltas); non-trivial = the independent predicate finds a "
        "resolvable pair or a pair sharing an index in the same position")
ASSUMPTIONS = [
    "orthogonal matrices of size N=2,3 on the Cayley chart (dense in SO(N)) "
    "and its reflection; larger N not explored",
    "the unitary tensor has both indices in the occupied space",
]

POOLN = "ijkl"
REMAINDERS = [(), (("x", 1),), (("x", 2),), (("x", 1), ("y", 1)),
              (("x", 2), ("y", 1))]


def bounds(tier):
    return {"max_U_factors": 3, "pool": POOLN, "N": [2, 3],
            "remainder_slots_total": 3}


def generate(tier):
    out = []
    for kind in ("nonsym", "anti"):
        for nU in (1, 2, 3):
            for exps in itertools.product((1, 2), repeat=nU):
                if sum(exps) > 4:
                    continue
                if nU == 3 and sum(exps) > 3 and tier == "quick":
                    continue
                for rem in REMAINDERS:
                    nrem = sum(n for _, n in rem)
                    nslots = 2 * nU + nrem
                    if nslots > (7 if tier == "quick" else 9):
                        continue
                    if kind == "anti" and tier == "quick" and nrem > 1:
                        continue
                    for r in gen.rgs(nslots):
                        if max(r) >= len(POOLN):
                            continue
                        names = tuple(POOLN[v] for v in r)
                        out.append((kind, exps, rem, names))
                        if nU <= 2 and kind == "nonsym" and nrem <= 2:
                            # the same product with spin-labelled (all alpha)
                            # indices: explicit targets carry the spin
                            out.append((kind, exps, rem,
                                        tuple(n + "_a" for n in names)))
    return out


def describe(case):
    kind, exps, rem, names = case
    return {"U_class": kind, "exponents": exps, "remainder": rem,
            "slot_indices": names}


def _build(case):
    kind, exps, rem, names = case
    k = 0
    term = S.One
    ufacs = []
    for ex in exps:
        a, b = gen.syms(names[k:k + 2])
        k += 2
        ufacs.append((names[k - 2], names[k - 1], ex))
        if kind == "nonsym":
            u = NonSymmetricTensor("U", (a, b))
        else:
            u = AntiSymmetricTensor("U", (a,), (b,))
        term = term * Pow(u, ex)
    rem_names = []
    for nm, n in rem:
        idx = gen.syms(names[k:k + n])
        rem_names.extend(names[k:k + n])
        k += n
        term = term * NonSymmetricTensor(nm, idx)
    return term, ufacs, rem_names


def _cayley(n):
    """U = (1-A)(1+A)^-1 for formal skew A; returns dict (p,q)->Poly"""
    if n == 2:
        a = ring.var("sk01")
        A = [[ZERO, a], [-a, ZERO]]
    else:
        a, b, c = ring.var("sk01"), ring.var("sk02"), ring.var("sk12")
        A = [[ZERO, a, b], [-a, ZERO, c], [-b, -c, ZERO]]
    M = [[(ONE if i == j else ZERO) + A[i][j] for j in range(n)]
         for i in range(n)]
    Mm = [[(ONE if i == j else ZERO) - A[i][j] for j in range(n)]
          for i in range(n)]
    if n == 2:
        det = M[0][0] * M[1][1] - M[0][1] * M[1][0]
        adj = [[M[1][1], -M[0][1]], [-M[1][0], M[0][0]]]
    else:
        def minor(i, j):
            rows = [r for r in range(3) if r != i]
            cols = [c for c in range(3) if c != j]
            return M[rows[0]][cols[0]] * M[rows[1]][cols[1]] - \
                M[rows[0]][cols[1]] * M[rows[1]][cols[0]]
        cof = [[minor(i, j) * (-1) ** (i + j) for j in range(3)]
               for i in range(3)]
        det = sum((M[0][j] * cof[0][j] for j in range(3)), Poly())
        adj = [[cof[j][i] for j in range(3)] for i in range(3)]
    dinv = ring.inverse(det)
    U = {}
    for i in range(n):
        for j in range(n):
            acc = Poly()
            for k in range(n):
                acc.iadd(Mm[i][k] * adj[k][j])
            U[(i, j)] = acc * dinv
    return U


_MODELS = {}


def _model(n, reflect):
    key = (n, reflect)
    m = _MODELS.get(key)
    if m is None:
        U = _cayley(n)
        if reflect:
            U = {(i, j): (-v if j == 0 else v) for (i, j), v in U.items()}
        # sanity: orthogonality of the oracle itself
        for i in range(n):
            for j in range(n):
                acc = Poly()
                for k in range(n):
                    acc.iadd(U[(k, i)] * U[(k, j)])
                assert ring.equal(acc, ONE if i == j else ZERO)

        def uval(model, kind, name, bks, u, l):
            if kind == "nonsym":
                return U[(u[0], u[1])]
            return U[(u[0], l[0])]
        m = Model(Space(n, 1), defs={"U": uval})
        _MODELS[key] = m
    return m


def _resolvable(ufacs, rem_names, target):
    """independent predicate: is there a pair of U factors sharing an index
    in the same position that is contracted and occurs nowhere else?  (Pairs
    sharing both indices count as well: resolving them is value preserving
    unless both indices are contracted and occur nowhere else, which the
    value oracle decides; the property only demands that pairs without such a
    shared index stay untouched.)"""
    flat = []
    for a, b, ex in ufacs:
        flat.extend([(a, b)] * ex)
    cnt = {}
    for a, b in flat:
        cnt[a] = cnt.get(a, 0) + 1
        cnt[b] = cnt.get(b, 0) + 1
    for n in rem_names:
        cnt[n] = cnt.get(n, 0) + 1
    res = same_pos = False
    for (a1, b1), (a2, b2) in itertools.combinations(flat, 2):
        for pos in (0, 1):
            s1, o1 = ((a1, b1), (b1, a1))[pos]
            s2, o2 = ((a2, b2), (b2, a2))[pos]
            if s1 == s2:
                same_pos = True
                if s1 not in target and cnt[s1] == 2:
                    res = True
    return res, same_pos


def run_case(case):
    kind, exps, rem, names = case
    term, ufacs, rem_names = _build(case)
    if term is S.Zero or term.is_number:
        return {"status": "skip", "key": repr(case), "outcome": "zero",
                "nontrivial": False, "transitions": 0}
    ein = gen.sympy_einstein_target(term)
    all_names = sorted(set(names), key=gen.name_key)
    targets = [None]
    # explicit targets: einstein + each single additional index, and ()
    for n in all_names:
        if n not in ein:
            targets.append(tuple(sorted(ein + (n,), key=gen.name_key)))
    if ein:
        targets.append(())
    results = []
    for tg in targets:
        tnames = ein if tg is None else tg
        for evd in (False, True):
            results.append(_one(case, term, ufacs, rem_names, tg, tnames, evd))
    return results


def _one(case, term, ufacs, rem_names, tg, tnames, evd):
    key = repr((case, tg, evd))
    base = {"key": key, "transitions": 1}
    target = gen.syms(tnames)
    kwargs = {} if tg is None else {"target_idx": list(target)}
    expr = Expr(term, **kwargs)
    in_sympy = expr.sympy
    out, err = safe_call(simplify_unitary, expr, "U", evd)
    info = (f"input: {in_sympy}  target={tnames} explicit={tg is not None} "
            f"evaluate_deltas={evd}\n")
    resolvable, same_pos = _resolvable(ufacs, rem_names, set(tnames))
    if err:
        return dict(base, status="violation", outcome="exception",
                    nontrivial=True, finding="simplify_unitary-exception",
                    detail=info + err)
    info += f"output: {out.sympy}\n"
    both = _shares_both(ufacs, set(tnames), rem_names)
    for n in (2, 3):
        for reflect in (False, True):
            model = _model(n, reflect)
            try:
                tin = evaluate(in_sympy, target, model)
                tout = evaluate(out.sympy, target, model)
            except Unsupported as e:
                return dict(base, status="violation", outcome="unsupported",
                            nontrivial=True, finding="oracle-unsupported",
                            detail=info + str(e))
            diff = tables_equal(tin, tout)
            if diff is not None:
                finding = "pair-sharing-both-indices" if both else \
                    "value-changed"
                if evd and _is_identity_trace(expr, target, model, tin):
                    finding = "evaluate_deltas-drops-trace-of-identity"
                return dict(base, status="violation", outcome="value",
                            nontrivial=True,
                            finding=finding,
                            detail=info + f"N={n} reflect={reflect}: value "
                            "changed " + fmt_diff(diff))
    changed = (out.sympy - in_sympy).expand() != 0
    if not resolvable and changed and not evd:
        return dict(base, status="violation", outcome="touched",
                    nontrivial=True, finding="touched-unresolvable-pair",
                    detail=info + "no resolvable pair (shared index is a "
                    "target / occurs elsewhere / both indices shared) but "
                    "the term was modified")
    if dict(out.assumptions) != dict(expr.assumptions):
        return dict(base, status="violation", outcome="assumptions",
                    nontrivial=True, finding="assumptions-changed",
                    detail=info + f"{expr.assumptions} -> {out.assumptions}")
    return dict(base, status="ok",
                outcome=f"resolvable={resolvable} changed={changed}",
                nontrivial=resolvable or same_pos)


def _shares_both(ufacs, target, rem_names):
    """is there a pair of U factors (or a squared factor) with identical
    index pairs?  (classification of finding F9)"""
    flat = []
    for a, b, ex in ufacs:
        flat.extend([(a, b)] * ex)
    return any(p == q for p, q in itertools.combinations(flat, 2))


def _is_identity_trace(expr, target, model, tin):
    """classification of a value change seen only with evaluate_deltas=True:
    the result without delta evaluation is value-correct and contains a delta
    whose two indices are both contracted and occur on no other object of the
    term (sum_jk delta_jk = N, which delta evaluation cannot represent)."""
    out, err = safe_call(simplify_unitary, expr, "U", False)
    if err:
        return False
    if tables_equal(tin, evaluate(out.sympy, target, model)) is not None:
        return False
    tset = set(target)
    for term in (out.sympy.args if isinstance(out.sympy, Add)
                 else (out.sympy,)):
        cnt = gen.sympy_index_counts(term)
        for d in term.atoms(KroneckerDelta):
            if all(s not in tset and cnt.get(s, 0) == 1 for s in d.args):
                return True
    return False
