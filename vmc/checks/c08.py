"""C08  Index renaming is capture-free and yields the documented names.

(a) order_substitutions: every partial map f: D -> P on a 5-index pool x every
    insertion order of the dict; oracle = simultaneous substitution on tuples.
(b) Container.permute: every word of <= 4 transpositions over a 4 (5) index
    pool; oracle = swaps applied one after another to the tuple.
(c) substitute_contracted / substitute_with_generic on grammar terms x target
    sets and on a 'crowded' family (many target names, high contracted names):
    targets untouched, value unchanged, number of distinct contracted indices
    unchanged, names = the lowest unused names per (space, spin) computed by an
    independent spec / generic names never handed out before.
(d) minimize_tensor_indices: returned permutations replayed on the tuple give
    the returned tuple; non-target names are the lowest available; targets
    fixed.
(e) BFS over histories of requests to a fresh Indices registry (depth <= 3/4):
    identity (same name -> the identical object as the first time), freshness
    of generic indices, well-formed spaces / spins.
"""
import itertools

from sympy import S

from adcgen import Expr
from adcgen.indices import (Indices, Index, order_substitutions, get_symbols,
                            minimize_tensor_indices, get_lowest_avail_indices)
from adcgen.misc import Singleton
from adcgen.sympy_objects import (NonSymmetricTensor, AntiSymmetricTensor)

from .. import gen
from ..evalexpr import evaluate, tables_equal
from .common import space_sizes, free_model, fmt_diff, safe_call, has_spin, \
    names_of

ID = "C08"
RULE = ("state = (index map, insertion order) / transposition word / "
        "(term, target set) / (tuple, targets) / registry state reached by a "
        "history (canonical: sorted symbol names, generic pools, counters); "
        "non-trivial = the map moves an index onto another moved index or the "
        "term has >= 1 contracted index that must be renamed")
ASSUMPTIONS = [
    "lowest-name specification: base letters of the space in alphabetical "
    "order, then the letters with suffix 1, 2, ... ; names of target indices "
    "of the same space and spin are skipped (doc-strings of "
    "get_lowest_avail_indices / substitute_contracted)",
    "registry histories explored on a fresh Indices instance obtained by "
    "clearing Singleton._instances[Indices] (read/write of one internal dict)",
]

P5 = ["i", "j", "k", "l", "m"]


def bounds(tier):
    return {"maps_pool": P5, "max_domain": 4 if tier == "quick" else 5,
            "perm_pool": 4 if tier == "quick" else 5, "perm_words": 4,
            "bfs_depth": 4 if tier == "quick" else 5}


def generate(tier):
    out = []
    kmax = 4 if tier == "quick" else 5
    for k in range(0, kmax + 1):
        for dom in itertools.combinations(P5, k):
            if k >= 3:
                for a0 in P5:
                    for a1 in P5:
                        out.append(("a", dom, (a0, a1)))
            else:
                out.append(("a", dom, ()))
    npool = 4 if tier == "quick" else 5
    trans = list(itertools.combinations(range(npool), 2))
    for first in [None] + trans:
        out.append(("b", npool, first))
    # (c) grammar terms
    singles = ["V_oovv", "t2", "f_ov", "d_gg", "x_ov", "y_oovv", "v_oovv",
               "D_oovv", "k_go", "a_oo"]
    pairs = [("V_oovv", "t2"), ("f_ov", "t1"), ("V_ovov", "X1"),
             ("d_gg", "k_go"), ("x_ov", "x_ov"), ("t2", "t2cc"),
             ("V_oooo", "t2"), ("d_ov", "y_ovv"), ("W_oovv", "Y2"),
             ("f_oo", "x_oo")]
    triples = [("V_oovv", "t1", "t1"), ("f_ov", "t1", "k_oo")]
    if tier == "thorough":
        pairs += [("V_ovvv", "t2"), ("V_ooov", "t2"), ("V_vvvv", "t2"),
                  ("A_oovv", "t2"), ("d_oo", "d_vv"), ("Xip", "V_ooov")]
        triples += [("V_oovv", "t2", "t2cc"), ("V_ovov", "t1", "t1")]
    seen = set()
    for shapes in [(s,) for s in singles] + pairs + triples:
        for d in gen.terms(shapes):
            if len(shapes) == 3 and max(gen.term_indices(d).values()) > 2:
                continue
            t = gen.build_term(d)
            if t is S.Zero or t.is_number:
                continue
            key = gen.canonical_key(d, ())
            if key in seen:
                continue
            seen.add(key)
            out.append(("c", d))
    # spin labelled
    spin_pool = {"o": ["i_a", "j_a", "i_b", "j_b"],
                 "v": ["a_a", "b_a", "a_b"], "g": ["p_a"]}
    for shapes in [("x_ov", "x_ov"), ("f_ov", "t1"), ("y_oovv",)]:
        for names in gen.index_patterns(gen.slot_spaces(shapes),
                                        pools=spin_pool):
            parts = gen.split_names(shapes, names)
            d = ("1", tuple((s, 1, p) for s, p in zip(shapes, parts)))
            t = gen.build_term(d)
            if t is S.Zero or t.is_number:
                continue
            out.append(("c", d))
    # crowded family: nT target names, nC contracted names with high numbers
    for space in ("occ", "virt", "general"):
        for nT in range(0, 10):
            for nC in range(1, 4):
                for style in ("first", "spread"):
                    out.append(("c2", space, nT, nC, style))
    # (d) minimize_tensor_indices
    pool_d = ["i", "j", "k", "a", "b", "i3", "p"]
    for n in (1, 2, 3, 4):
        if n == 4 and tier == "quick":
            tuples = itertools.product(pool_d[:5], repeat=4)
        else:
            tuples = itertools.product(pool_d, repeat=n)
        for tup in tuples:
            out.append(("d", tup))
    # (e) registry BFS (one case, explored inside)
    out.append(("e", 4 if tier == "quick" else 5))
    return out


def describe(case):
    return {"part": case[0], "params": case[1:]}


# ------------------------------------------------------------------ (a)
def _part_a(case):
    dom, fixed = case[1], case[2]
    results = []
    pool = gen.syms(P5)
    psym = dict(zip(P5, pool))
    probe = NonSymmetricTensor("x", pool) * \
        AntiSymmetricTensor("y", pool[:3], pool[3:])
    outcomes = {}
    n = nt = trans = 0
    for img in itertools.product(P5, repeat=len(dom) - len(fixed)):
        img = tuple(fixed) + img
        f = dict(zip(dom, img))
        expected_names = [f.get(nm, nm) for nm in P5]
        es = [psym[nm] for nm in expected_names]
        expected = NonSymmetricTensor("x", es) * \
            AntiSymmetricTensor("y", es[:3], es[3:])
        moved = {k for k, v in f.items() if k != v}
        nontrivial = any(v in moved for k, v in f.items() if k != v)
        for order in itertools.permutations(dom):
            sub = {psym[k]: psym[f[k]] for k in order}
            n += 1
            nt += nontrivial
            trans += 1
            lst, err = safe_call(order_substitutions, sub)
            if not err:
                got, err = safe_call(probe.subs, lst)
            if err:
                results.append({"status": "violation",
                                "key": repr(("a", f, order)), "nontrivial": True,
                                "outcome": "exception", "transitions": 1,
                                "finding": "order_substitutions-exception",
                                "detail": f"map {f} inserted in order {order}: "
                                + err})
                continue
            if got != expected:
                results.append({"status": "violation",
                                "key": repr(("a", f, order)), "nontrivial": True,
                                "outcome": "mismatch", "transitions": 1,
                                "finding": "ordered-substitution-not-simultaneous",
                                "detail": f"map {f} inserted in order {order}: "
                                f"ordered list {lst} applied to {probe} gives "
                                f"{got}; simultaneous substitution gives "
                                f"{expected}"})
                continue
            # no leftover temporary index
            o = f"len{len(lst)}"
            outcomes[o] = outcomes.get(o, 0) + 1
    results.append({"status": "ok", "key": "agg:" + repr(case),
                    "nontrivial": True, "outcome": "aggregate",
                    "transitions": 0,
                    "agg": {"states": n - sum(1 for r in results),
                            "nontrivial": nt, "transitions": trans,
                            "outcomes": outcomes}})
    return results


# ------------------------------------------------------------------ (b)
def _part_b(case):
    _, npool, first = case
    names = ["i", "j", "k", "l", "m"][:npool]
    pool = gen.syms(names)
    trans = list(itertools.combinations(range(npool), 2))
    probe = Expr(NonSymmetricTensor("x", pool)
                 * AntiSymmetricTensor("y", pool[:2], pool[2:4]))
    results = []
    outcomes = {}
    n = 0
    words = [()] if first is None else \
        [(tuple(first),) + w for ln in range(0, 4)
         for w in itertools.product(trans, repeat=ln)]
    for w in words:
        tup = list(pool)
        for p, q in w:
            # P_pq swaps the *indices* p and q wherever they are
            sp, sq = pool[p], pool[q]
            tup = [sq if s is sp else sp if s is sq else s for s in tup]
        expected = NonSymmetricTensor("x", tup) * \
            AntiSymmetricTensor("y", tup[:2], tup[2:4])
        perms = [(pool[p], pool[q]) for p, q in w]
        # Expr.permute works in place -> fresh copy for every word
        got, err = safe_call(probe.copy().permute, *perms)
        n += 1
        if err or got.sympy != expected:
            results.append({"status": "violation", "key": repr(("b", w)),
                            "nontrivial": True, "outcome": "mismatch",
                            "transitions": 1,
                            "finding": "permute-not-sequential",
                            "detail": f"permute{[(names[p], names[q]) for p, q in w]} "
                            f"on {probe.sympy} gives "
                            f"{err or got.sympy}; applying the transpositions "
                            f"one after another gives {expected}"})
        else:
            o = f"word{len(w)}"
            outcomes[o] = outcomes.get(o, 0) + 1
    results.append({"status": "ok", "key": "agg:" + repr(case),
                    "nontrivial": True, "outcome": "aggregate",
                    "transitions": 0,
                    "agg": {"states": n - (len(results)), "nontrivial":
                            sum(1 for w in words if len(w) > 1),
                            "transitions": n, "outcomes": outcomes}})
    return results


# ------------------------------------------------------------------ (c)
def _name_sequence(space):
    base = {"o": "ijklmno", "v": "abcdefgh", "g": "pqrstuvw"}[space[0]]
    k = 0
    while True:
        suffix = "" if k == 0 else str(k)
        for c in base:
            yield c + suffix
        k += 1


def _lowest_names(n, used, space):
    out = []
    for nm in _name_sequence(space):
        if len(out) == n:
            break
        if nm not in used:
            out.append(nm)
    return out


def _check_rename(term, tnames, explicit, which, handed_out):
    """run substitute_contracted / substitute_with_generic on Expr(term) and
    check all clauses; returns (status dict)"""
    target = gen.syms(tnames)
    kwargs = {"target_idx": list(target)} if explicit else {}
    expr = Expr(term, **kwargs)
    info = f"{which} on {term} targets={tnames} explicit={explicit}\n"
    if which == "contracted":
        out, err = safe_call(lambda: expr.copy().substitute_contracted())
    else:
        out, err = safe_call(lambda: expr.copy().substitute_with_generic())
    if err:
        return dict(status="violation", outcome="exception",
                    finding=f"substitute_{which}-exception", detail=info + err)
    res = out.sympy
    info += f"output: {res}\n"
    in_idx = term.atoms(Index)
    out_idx = res.atoms(Index)
    tset = set(target)
    # targets untouched: every target of the input still occurs, with the
    # same multiplicity
    cin = gen.sympy_index_counts(term)
    cout = gen.sympy_index_counts(res)
    for t in tset & in_idx:
        if cout.get(t, 0) != cin[t]:
            return dict(status="violation", outcome="target",
                        finding="target-index-touched",
                        detail=info + f"target index {t} occurs {cin[t]}x in "
                        f"the input and {cout.get(t, 0)}x in the output")
    n_c_in = len(in_idx - tset)
    n_c_out = len(out_idx - tset)
    if n_c_in != n_c_out:
        return dict(status="violation", outcome="merged",
                    finding="contracted-indices-merged",
                    detail=info + f"{n_c_in} distinct contracted indices in "
                    f"the input, {n_c_out} in the output")
    # value (skipped for the crowded family with > 6 index symbols: the
    # table would have N^9 entries; the structural clauses above and the name
    # clauses below are still decided)
    names = {str(s) for s in in_idx | tset}
    no, nv = space_sizes([names])
    diff = None
    if len(names) <= 6:
        model = free_model(no, nv, has_spin(names), tag="c08")
        diff = tables_equal(evaluate(term, target, model),
                            evaluate(res, target, model))
    if diff is not None:
        return dict(status="violation", outcome="value",
                    finding="value-changed",
                    detail=info + "value changed " + fmt_diff(diff))
    # names
    by_key = {}
    for s in out_idx - tset:
        by_key.setdefault((s.space, s.spin), set()).add(s.name)
    if which == "contracted":
        for (space, spin), got in by_key.items():
            used = {t.name for t in tset if (t.space, t.spin) == (space, spin)}
            exp = set(_lowest_names(len(got), used, space))
            if got != exp:
                return dict(status="violation", outcome="names",
                            finding="not-lowest-names",
                            detail=info + f"contracted {space}/{spin or '-'} "
                            f"names {sorted(got)}; lowest unused names are "
                            f"{sorted(exp)}")
        # the documented mapping keeps the canonical order of the contracted
        # indices: not demanded by the property, not checked
    else:
        for (space, spin), got in by_key.items():
            prev = handed_out.setdefault((space, spin), set())
            again = got & prev
            if again:
                return dict(status="violation", outcome="names",
                            finding="generic-name-reused",
                            detail=info + f"generic names {sorted(again)} were"
                            " handed out before")
            inp = {s.name for s in in_idx | tset
                   if (s.space, s.spin) == (space, spin)}
            if got & inp:
                return dict(status="violation", outcome="names",
                            finding="generic-name-collides",
                            detail=info + f"generic names {sorted(got & inp)} "
                            "occur in the input")
    return dict(status="ok", outcome=f"{which}:{n_c_in}contracted")


_HANDED = {}


def _note_existing():
    """every name currently known to the registry counts as handed out"""
    reg = Indices()
    for space, d in reg._symbols.items():
        for spin, names in d.items():
            _HANDED.setdefault((space, spin), set()).update(names)


def _part_c(case):
    desc = case[1]
    term = gen.build_term(desc)
    ein = gen.sympy_einstein_target(term)
    names = sorted(names_of(desc), key=gen.name_key)
    tsets = [(ein, False), (ein, True), ((), True)]
    cnt = gen.term_indices(desc)
    twice = [n for n in names if cnt[n] >= 2]
    for n in twice[:2]:
        tsets.append((tuple(sorted(ein + (n,), key=gen.name_key)), True))
    # a target that does not occur in the term but blocks a low name
    sp = gen.space_of(names[0])
    extra = next(nm for nm in _name_sequence(sp) if nm not in names)
    tsets.append((tuple(sorted(ein + (extra,), key=gen.name_key)), True))
    results = []
    seen = set()
    for tn, explicit in tsets:
        if (tn, explicit) in seen:
            continue
        seen.add((tn, explicit))
        for which in ("contracted", "generic"):
            _note_existing()
            r = _check_rename(term, tn, explicit, which, _HANDED)
            _note_existing()
            r.update(key=repr(("c", gen.canonical_key(desc, tn), tn, explicit,
                               which)),
                     transitions=1,
                     nontrivial=any(n not in tn for n in names))
            results.append(r)
    return results


def _part_c2(case):
    _, space, nT, nC, style = case
    seq = _name_sequence(space)
    first = [next(seq) for _ in range(24)]
    if style == "first":
        tnames = first[:nT]
    else:
        tnames = first[1:2 * nT:2]
    cn = [first[0][0] + str(7 + k) for k in range(nC)]  # e.g. i7, i8
    cn = [c for c in cn]
    T = gen.syms(tnames)
    C = gen.syms(cn)
    term = NonSymmetricTensor("y", C) * NonSymmetricTensor("z", C[::-1])
    if T:
        term = term * NonSymmetricTensor("x", T)
    results = []
    for which in ("contracted", "generic"):
        _note_existing()
        r = _check_rename(term, tuple(tnames), True, which, _HANDED)
        _note_existing()
        r.update(key=repr((case, which)), transitions=1, nontrivial=True)
        results.append(r)
    return results


# ------------------------------------------------------------------ (d)
def _part_d(case):
    tup = case[1]
    results = []
    idx = gen.syms(tup)
    names = sorted(set(tup), key=gen.name_key)
    tsets = [()] + [(n,) for n in names] + \
        [c for c in itertools.combinations(names, 2)]
    for tn in tsets:
        key = repr(("d", tup, tn))
        base = {"key": key, "transitions": 1,
                "nontrivial": any(n not in tn for n in tup)}
        tdict = {}
        for n in tn:
            s = gen.sym(n)
            tdict.setdefault(s.space_and_spin, []).append(s.name)
        info = f"minimize_tensor_indices({tup}, targets={tn}) "
        out, err = safe_call(minimize_tensor_indices, idx, tdict)
        if err:
            results.append(dict(base, status="violation", outcome="exception",
                                finding="minimize-exception",
                                detail=info + err))
            continue
        new, perms = out
        info += f"= {new}, perms {perms}\n"
        # replay permutations on the tuple
        cur = list(idx)
        for p, q in perms:
            cur = [q if s is p else p if s is q else s for s in cur]
        if tuple(cur) != tuple(new):
            results.append(dict(base, status="violation", outcome="replay",
                                finding="minimize-perms-do-not-replay",
                                detail=info + f"replaying the permutations "
                                f"gives {tuple(cur)}"))
            continue
        bad = None
        for a, b in zip(idx, new):
            if a.name in tn and a is not b:
                bad = f"target {a} moved to {b}"
            if (a.space, a.spin) != (b.space, b.spin):
                bad = f"{a} replaced by {b} of another space/spin"
        # pattern preserved (injective renaming)
        if len(set(zip(idx, new))) != len(set(idx)) or \
                len(set(new)) != len(set(idx)):
            bad = "index pattern not preserved"
        if not bad:
            for key_ss in {s.space_and_spin for s in new}:
                got = {s.name for s in new if s.space_and_spin == key_ss
                       and s.name not in tn}
                used = {gen.parse_idx(n)[0] for n in tn
                        if gen.sym(n).space_and_spin == key_ss}
                exp = set(_lowest_names(len(got), used, key_ss[0]))
                if got != exp:
                    bad = (f"non-target names {sorted(got)} are not the lowest"
                           f" available {sorted(exp)}")
        if bad:
            results.append(dict(base, status="violation", outcome="names",
                                finding="minimize-wrong-result",
                                detail=info + bad))
        else:
            results.append(dict(base, status="ok",
                                outcome=f"min:{len(perms)}perms"))
    return results


# ------------------------------------------------------------------ (e)
ALPHABET = [
    ("get", "i"), ("get", "i3"), ("get", "j3"), ("get", "i4"), ("get", "a3"),
    ("get", "p3"), ("get", "ij3"), ("get_spin", "i3", "a"),
    ("generic", "occ", 1), ("generic", "occ", 2), ("generic", "occ", 8),
    ("generic", "virt_a", 1), ("generic", "general", 1),
    ("symbols", "i3a3"), ("subst_generic",),
]


def _fresh_registry():
    Singleton._instances.pop(Indices, None)
    return Indices()


def _apply(ev, log):
    """apply one event to the current registry; log = dict of monitor state:
    first[(space, spin, name)] = object, generic_seen[(space, spin)] = names
    handed out as generic or explicitly.  Returns violation text or None."""
    reg = Indices()
    got = []
    generic = False
    if ev[0] == "get":
        d = reg.get_indices(ev[1])
        got = [s for v in d.values() for s in v]
    elif ev[0] == "get_spin":
        d = reg.get_indices(ev[1], ev[2])
        got = [s for v in d.values() for s in v]
    elif ev[0] == "generic":
        d = reg.get_generic_indices(**{ev[1]: ev[2]})
        got = [s for v in d.values() for s in v]
        generic = True
        if len(got) != ev[2]:
            return f"{ev}: {len(got)} indices returned"
        sp = ev[1].split("_")
        want = (sp[0], sp[1] if len(sp) > 1 else "")
        for s in got:
            if (s.space, s.spin) != want:
                return f"{ev}: index {s} has space/spin {(s.space, s.spin)}"
    elif ev[0] == "symbols":
        got = get_symbols(ev[1])
    elif ev[0] == "subst_generic":
        i, j = get_symbols("ij")
        t = Expr(NonSymmetricTensor("x", (i, j)) *
                 NonSymmetricTensor("y", (j,)))
        res = t.substitute_with_generic().sympy
        new = [s for s in res.atoms(Index) if s is not i]
        if len(new) != 1:
            return f"{ev}: result {res}"
        got = new
        generic = True
        # i, j were requested explicitly
        for s in (i, j):
            log["first"].setdefault((s.space, s.spin, s.name), s)
            log["handed"].setdefault((s.space, s.spin), set()).add(s.name)
    if generic and len({id(s) for s in got}) != len(got):
        return f"{ev}: the same index twice in one request"
    for s in got:
        if not isinstance(s, Index):
            return f"{ev}: {s!r} is not an Index"
        k = (s.space, s.spin, s.name)
        exp_space = gen.space_of(s.name)
        if s.space[0] != exp_space:
            return f"{ev}: index {s} in space {s.space}"
        first = log["first"].setdefault(k, s)
        if first is not s:
            return (f"{ev}: name {s.name} ({s.space},{s.spin or '-'}) returned "
                    "a different object than the first time")
        handed = log["handed"].setdefault((s.space, s.spin), set())
        if generic and s.name in handed:
            return (f"{ev}: generic index {s} was handed out before")
        handed.add(s.name)
    return None


def _canon():
    reg = Indices()
    sym = tuple(sorted((sp, spin, name) for sp, d in reg._symbols.items()
                       for spin, names in d.items() for name in names))
    pools = tuple(sorted((sp, spin, tuple(lst))
                         for sp, d in reg._generic_indices.items()
                         for spin, lst in d.items() if lst))
    cnt = tuple(sorted((sp, spin, c) for sp, d in reg._counter.items()
                       for spin, c in d.items() if c != 3))
    return (sym, pools, cnt)


def _part_e(case):
    depth = case[1]
    saved = Singleton._instances.get(Indices)
    results = []
    try:
        seen = set()
        frontier = [()]
        n_states = n_trans = 0
        maxd = 0
        violations = 0
        while frontier:
            nxt = []
            for hist in frontier:
                if len(hist) >= depth:
                    continue
                for ev in ALPHABET:
                    h2 = hist + (ev,)
                    # rebuild on a fresh registry by replaying the history
                    _fresh_registry()
                    log = {"first": {}, "handed": {}}
                    bad = None
                    for e in h2:
                        n_trans += 1
                        bad, err = safe_call(_apply, e, log)
                        if err:
                            bad = f"{e} raised {err}"
                        if bad:
                            break
                    if bad:
                        violations += 1
                        if violations <= 20:
                            results.append({
                                "status": "violation", "key": repr(("e", h2)),
                                "nontrivial": True, "outcome": "invariant",
                                "transitions": 0,
                                "finding": "registry-invariant",
                                "detail": f"history {h2}: {bad}"})
                        continue
                    k = _canon()
                    if k not in seen:
                        seen.add(k)
                        n_states += 1
                        nxt.append(h2)
                        maxd = max(maxd, len(h2))
            frontier = nxt
        results.append({"status": "ok", "key": "agg:e", "nontrivial": True,
                        "outcome": "aggregate", "transitions": 0,
                        "agg": {"states": n_states, "nontrivial": n_states,
                                "transitions": n_trans,
                                "outcomes": {f"bfs-depth{maxd}": n_states}}})
    finally:
        if saved is not None:
            Singleton._instances[Indices] = saved
    return results


def run_case(case):
    return {"a": _part_a, "b": _part_b, "c": _part_c, "c2": _part_c2,
            "d": _part_d, "e": _part_e}[case[0]](case)
