"""C10  Reported permutational symmetries are true; decompositions are
lossless.

(A) Term.symmetry() / symmetry(only_target) / symmetry(only_contracted) and
    Obj.symmetry() on grammar terms (incl. orbital-energy denominators) x
    target sets: every reported (permutations, +-1) is checked by applying the
    permutation to the *assignment* of the pointwise value table (all indices
    free): X(sigma o pi) = +- X(sigma).
(B) exploit_perm_sym on sums  T + sum_{g in subset} chi(g) g(T) (+ spectator
    terms) for every subset of the target permutation group, every valid target
    string / ',' split / bra-ket symmetry / (anti)symmetric result tensor:
    sum_keys (part + sum factor * pi(part)) must equal the input by value.
(C) by_delta_types, by_delta_indices, by_tensor_block, by_tensor_target_block,
    by_tensor_target_indices, filter_tensor (3 strictness levels): the sum of
    the parts equals the input by value and every term lands under the key
    recomputed from the raw term.
"""
import itertools

from sympy import S, Add, Mul, Pow, Rational

from adcgen import Expr
from adcgen import sort_expr as sort
from adcgen.indices import Index
from adcgen.simplify import filter_tensor
from adcgen.sympy_objects import (AntiSymmetricTensor, NonSymmetricTensor,
                                  SymmetricTensor, Amplitude, KroneckerDelta)

from .. import gen
from ..evalexpr import (evaluate, tables_equal, Table, add_tables, scale_table,
                        Unsupported)
from ..model import Model, Space, orb_energy, symbolic_denominator
from .common import space_sizes, free_model, fmt_diff, safe_call, names_of, \
    has_spin

ID = "C10"
RULE = ("state = (term, target set, symmetry query) / (generating term, "
        "subset of the target permutation group, exploit_perm_sym options) / "
        "(expression, sorting function, tensor name); non-trivial = at least "
        "one symmetry element is reported resp. the input has >= 2 terms")
ASSUMPTIONS = [
    "a reported permutation product is applied as documented for "
    "Container.permute: the transpositions one after another, in the order "
    "given",
    "free tensor model, N >= number of index symbols per space",
]


def bounds(tier):
    return {"objects_per_term": 3, "target_groups": ["ij", "ab", "ij,ab",
                                                     "ijk", "ia,jb", "ijab"]}


# ------------------------------------------------------------------- (A)
A_SINGLES = ["V_oovv", "V_oooo", "V_ovov", "W_oovv", "A_oovv", "t2", "f_oo",
             "d_oo", "a_oo", "v_oovv", "D_oovv", "y_oovv", "x_oo", "s_oovv",
             "Xip"]
A_PAIRS = [("V_oovv", "t2"), ("V_ovov", "X1"), ("x_ov", "x_ov"),
           ("t2", "t2cc"), ("V_oooo", "t2"), ("f_ov", "t1"), ("t1", "t1"),
           ("V_oovv", "D_oovv"), ("f_oo", "x_oo"), ("d_ov", "d_ov"),
           ("X1", "Y1"), ("v_oovv", "t2")]
A_TRIPLES = [("V_oovv", "t1", "t1"), ("f_ov", "t1", "k_oo"),
             ("x_ov", "x_ov", "x_ov")]


def generate(tier):
    out = []
    seen = set()
    for shapes in [(s,) for s in A_SINGLES] + A_PAIRS + A_TRIPLES:
        for d in gen.terms(shapes):
            if len(shapes) >= 2 and max(gen.term_indices(d).values()) > 2:
                continue
            if len(shapes) == 3 and tier == "quick" and \
                    len(gen.einstein_target(d)) > 2:
                continue
            t = gen.build_term(d)
            if t is S.Zero or t.is_number:
                continue
            key = gen.canonical_key(d, ())
            if key in seen:
                continue
            seen.add(key)
            out.append(("A", d))
    for k in range(len(_denominator_terms())):
        out.append(("A2", k))
    # (B)
    for k in range(len(_perm_inputs())):
        out.append(("B", k))
    for k in range(len(_sort_inputs())):
        out.append(("C", k))
    return out


def describe(case):
    if case[0] == "A":
        return {"part": "A", "term": str(gen.build_term(case[1]))}
    return {"part": case[0], "input": case[1]}


def _symbol_map(perms):
    """symbol -> symbol for transpositions applied one after another (as
    Container.permute documents); returned as dict on the symbols touched"""
    syms = []
    for p, q in perms:
        for s in (p, q):
            if s not in syms:
                syms.append(s)
    cur = list(syms)
    for p, q in perms:
        cur = [q if s is p else p if s is q else s for s in cur]
    return dict(zip(syms, cur))


def _permute_table(tab, m):
    """value table of the term with every symbol s replaced by m(s):
    X'(sigma) = X(s |-> sigma(m(s)))"""
    axes = tab.axes
    pos = {a: k for k, a in enumerate(axes)}
    # X' at assignment sigma (tuple over axes): X evaluated at the assignment
    # that gives symbol s the value sigma[m(s)]
    # => X'[sigma] = X[tuple(sigma[pos[m(s)]] for s in axes)]
    # enumerate via the stored entries of X: X[tau] contributes to X'[sigma]
    # with sigma[pos[m(s)]] = tau[pos[s]]
    out = {}
    n = len(axes)
    for tau, v in tab.data.items():
        sigma = [None] * n
        for s in axes:
            sigma[pos[m.get(s, s)]] = tau[pos[s]]
        out[tuple(sigma)] = v
    return Table(axes, out)


def _check_sym_dict(symdict, term_sympy, idx_all, model, info):
    """all reported elements hold pointwise; returns violation text or None"""
    tab = evaluate(term_sympy, idx_all, model)
    for perms, factor in symdict.items():
        if factor not in (1, -1):
            return f"{info}reported factor {factor} for {perms}"
        m = _symbol_map(perms)
        for s, t in m.items():
            if (s.space, s.spin) != (t.space, t.spin):
                return f"{info}reported permutation {perms} mixes spaces/spins"
        ptab = _permute_table(tab, m)
        diff = tables_equal(ptab, scale_table(tab, factor))
        if diff is not None:
            return (f"{info}reported {perms} with factor {factor:+d} but the "
                    f"permuted term differs: " + fmt_diff(diff))
    return None


def _part_a_term(term_sympy, tnames_list, key0, model_defs=None):
    results = []
    idx_all = tuple(sorted(term_sympy.atoms(Index),
                           key=lambda s: gen.name_key(str(s))))
    names = [str(s) for s in idx_all]
    no, nv = space_sizes([names])
    if model_defs:
        model = _MODELS.setdefault(("A2", no, nv), Model(
            Space(no, nv), defs=model_defs))
    else:
        model = free_model(no, nv, has_spin(names), tag="c10")
    for tg in tnames_list:
        kw = {} if tg is None else {"target_idx": list(gen.syms(tg))}
        expr = Expr(term_sympy, **kw)
        if len(expr) != 1:
            continue
        term = expr.terms[0]
        queries = [("all", {}), ("only_target", {"only_target": True}),
                   ("only_contracted", {"only_contracted": True})]
        # Term.symmetry() over *all* indices enumerates products of
        # transpositions of the index list with multiplicity; with > 4
        # entries per space this does not terminate in reasonable time
        # (performance only) -> the query is skipped there
        cnt_all = gen.sympy_index_counts(term_sympy)
        per_space = {}
        for s, c_ in cnt_all.items():
            per_space[(s.space, s.spin)] = per_space.get((s.space, s.spin), 0) + c_
        if max(per_space.values(), default=0) > 4:
            queries = queries[1:]
        for qn, qkw in queries:
            key = repr((key0, tg, qn))
            base = {"key": key, "transitions": 1}
            sd, err = safe_call(term.symmetry, **qkw)
            info = (f"Term.symmetry({qn}) of {term_sympy} targets={tg}\n")
            if err:
                results.append(dict(base, status="violation", nontrivial=True,
                                    outcome="exception",
                                    finding="symmetry-exception",
                                    detail=info + err))
                continue
            bad = _check_sym_dict(sd, term_sympy, idx_all, model, info)
            # the restriction must be respected
            if bad is None and qn != "all":
                tset = set(term.target)
                for perms in sd:
                    for p, q in perms:
                        for s in (p, q):
                            if (qn == "only_target") != (s in tset):
                                bad = (f"{info}{perms} touches index {s} "
                                       f"outside the requested subset")
            if bad:
                results.append(dict(base, status="violation", nontrivial=True,
                                    outcome="wrong-symmetry",
                                    finding="reported-symmetry-false",
                                    detail=bad))
            else:
                results.append(dict(base, status="ok", nontrivial=bool(sd),
                                    outcome=f"sym:{qn}:{min(len(sd), 9)}"))
        # Obj.symmetry
        for oi, obj in enumerate(term.objects):
            if obj.sympy.is_number:
                continue
            key = repr((key0, tg, "obj", oi))
            base = {"key": key, "transitions": 1}
            sd, err = safe_call(obj.symmetry)
            info = f"Obj.symmetry() of {obj.sympy} in {term_sympy}\n"
            if err:
                results.append(dict(base, status="violation", nontrivial=True,
                                    outcome="exception",
                                    finding="obj-symmetry-exception",
                                    detail=info + err))
                continue
            oidx = tuple(sorted(obj.sympy.atoms(Index),
                                key=lambda s: gen.name_key(str(s))))
            bad = _check_sym_dict(sd, obj.sympy, oidx, model, info)
            if bad:
                results.append(dict(base, status="violation", nontrivial=True,
                                    outcome="wrong-symmetry",
                                    finding="reported-obj-symmetry-false",
                                    detail=bad))
            else:
                results.append(dict(base, status="ok", nontrivial=bool(sd),
                                    outcome=f"objsym:{min(len(sd), 9)}"))
    return results


_MODELS = {}


def _part_a(case):
    desc = case[1]
    term = gen.build_term(desc)
    ein = gen.sympy_einstein_target(term)
    names = sorted(names_of(desc), key=gen.name_key)
    tl = [None, ein, ()]
    cnt = gen.term_indices(desc)
    twice = [n for n in names if cnt[n] >= 2]
    if twice:
        tl.append(tuple(sorted(ein + (twice[0],), key=gen.name_key)))
    tl.append(tuple(names))
    seen, tl2 = set(), []
    for t in tl:
        if t not in seen:
            seen.add(t)
            tl2.append(t)
    return _part_a_term(term, tl2, gen.canonical_key(desc, ()))


def _e(n):
    return NonSymmetricTensor("e", (gen.sym(n),))


def _denominator_terms():
    i, j, k, a, b, c = gen.syms("ijkabc")
    V = lambda *x: AntiSymmetricTensor("V", x[:2], x[2:], 1)  # noqa
    d2 = _e("a") + _e("b") - _e("i") - _e("j")
    d1 = _e("a") - _e("i")
    d1b = _e("b") - _e("j")
    return [
        V(i, j, a, b) / d2, V(i, j, a, b) / d1, V(i, j, a, b) / (d1 * d1b),
        V(i, j, a, b) ** 2 / d2, V(i, j, a, b) ** 2 / d1,
        V(i, j, a, b) * NonSymmetricTensor("x", (i, a)) / d2,
        V(i, j, a, b) / d2 ** 2 * (_e("i") + _e("j")),
        V(i, j, a, b) * (_e("i") - _e("a")) / d2,
        NonSymmetricTensor("x", (i, j)) / (_e("i") + _e("j")),
        NonSymmetricTensor("x", (i, j)) * NonSymmetricTensor("x", (j, i))
        / (_e("i") - _e("a")),
        V(i, k, a, c) * V(j, k, b, c) / ((_e("a") + _e("c") - _e("i") - _e("k"))
                                         * (_e("b") + _e("c") - _e("j")
                                            - _e("k"))),
    ]


def _part_a2(case):
    term = _denominator_terms()[case[1]]
    names = sorted({str(s) for s in term.atoms(Index)}, key=gen.name_key)
    ein = gen.sympy_einstein_target(term)
    tl = [(), tuple(names), tuple(n for n in names if n in "ijab")]
    return _part_a_term(term, tl, ("A2", case[1]), model_defs={"e": orb_energy})


# ------------------------------------------------------------------- (B)
def _perm_inputs():
    """(generating term builder id, target string, group elements) ..."""
    out = []
    gens = ["YY", "Vt", "fX", "xxx", "Vd", "tD", "VV"]
    for g in gens:
        out.append(g)
    return out


def _gen_term(gid):
    i, j, k, l, a, b, c, d = gen.syms("ijklabcd")
    Y = lambda x, y: Amplitude("Y", (y,), (x,))  # noqa  Y^a_i
    V = lambda *x: AntiSymmetricTensor("V", x[:2], x[2:], 1)  # noqa
    t2 = lambda *x: Amplitude("t2", x[2:], x[:2])  # noqa
    ns = NonSymmetricTensor
    if gid == "YY":
        return Y(i, a) * Y(j, b), "ijab", [("ij,ab", 0), ("ia,jb", 0),
                                           ("ia,jb", 1), ("ijab", 0)]
    if gid == "Vt":
        return V(i, k, a, c) * t2(j, k, b, c), "ijab", \
            [("ij,ab", 0), ("ia,jb", 0), ("ia,jb", 1), ("ia,jb", -1)]
    if gid == "fX":
        return AntiSymmetricTensor("f", (i,), (k,), 1) * \
            Amplitude("X", (a, b), (j, k)), "ijab", [("ij,ab", 0), ("ijab", 0)]
    if gid == "xxx":
        return ns("x", (i,)) * ns("y", (j,)) * ns("z", (k,)), "ijk", \
            [("ijk", 0)]
    if gid == "Vd":
        return V(i, j, a, c) * ns("d", (c, b)), "ijab", [("ij,ab", 0)]
    if gid == "tD":
        return t2(i, j, a, b) * ns("x", (i, a)) / \
            (_e("a") + _e("b") - _e("i") - _e("j")) * \
            NonSymmetricTensor("w", (j, b)), "ijab", [("ij,ab", 0),
                                                       ("ia,jb", 1)]
    if gid == "VV":
        return V(i, k, a, c) * V(j, k, b, c), "ijab", [("ia,jb", 1),
                                                       ("ij,ab", 0)]
    raise KeyError(gid)


def _group_elements(tnames):
    """all permutations of the target symbols that respect the spaces, as
    symbol maps (dict name->name), identity excluded"""
    occ = [n for n in tnames if gen.space_of(n) == "o"]
    virt = [n for n in tnames if gen.space_of(n) == "v"]
    out = []
    for po in itertools.permutations(occ):
        for pv in itertools.permutations(virt):
            m = dict(zip(occ, po))
            m.update(zip(virt, pv))
            if all(k == v for k, v in m.items()):
                continue
            out.append(m)
    return out


def _part_b(case):
    gid = _perm_inputs()[case[1]]
    T, tstr, options = _gen_term(gid)
    tnames = gen.parse_idx  # noqa
    tn = [c for c in tstr]
    target = gen.syms(tn)
    group = _group_elements(tn)
    names = sorted({str(s) for s in T.atoms(Index)}, key=gen.name_key)
    no, nv = space_sizes([names])
    model = _MODELS.setdefault(("B", no, nv), Model(
        Space(no, nv), defs={"e": orb_energy}))
    results = []
    subsets = []
    for r in range(0, min(len(group), 3) + 1):
        subsets.extend(itertools.combinations(range(len(group)), r))
    if len(group) <= 5:
        subsets.append(tuple(range(len(group))))
    for sub in subsets:
        for signs in itertools.product((1, -1), repeat=len(sub)):
            if len(sub) > 1 and len(set(signs)) > 1 and len(sub) > 2:
                continue
            expr = T
            for gi, sg in zip(sub, signs):
                m = {gen.sym(k): gen.sym(v) for k, v in group[gi].items()}
                expr = expr + sg * T.subs(m, simultaneous=True)
            if expr is S.Zero:
                continue
            for tstring, bks in options:
                for anti in (True, False):
                    for explicit in (True, False):
                        key = repr(("B", gid, sub, signs, tstring, bks, anti,
                                    explicit))
                        results.append(_one_b(key, expr, target, tstring, bks,
                                              anti, explicit, model))
    return results


def _one_b(key, expr, target, tstring, bks, anti, explicit, model):
    base = {"key": key, "transitions": 1,
            "nontrivial": isinstance(expr, Add)}
    kw = {"target_idx": list(target)} if explicit else {}
    e0 = Expr(expr, **kw)
    info = (f"exploit_perm_sym({e0.sympy}, target_indices={tstring!r}, "
            f"bra_ket_sym={bks}, antisymmetric_result_tensor={anti}) "
            f"explicit_targets={explicit}\n")
    out, err = safe_call(sort.exploit_perm_sym, e0.copy(), tstring, None, bks,
                         anti)
    if err:
        if err.startswith("Inputerror") or err.startswith("NotImplemented"):
            return dict(base, status="ok", nontrivial=False,
                        outcome="refused")
        return dict(base, status="violation", outcome="exception",
                    finding="exploit_perm_sym-exception", detail=info + err)
    ref = evaluate(e0.sympy, target, model)
    total = Table(target, {})
    desc = []
    for permkey, part in out.items():
        psym = getattr(part, "sympy", part)
        ptab = evaluate(psym, target, model)
        total = add_tables(total, ptab)
        desc.append(f"{permkey}: {psym}")
        for perms, factor in permkey:
            m = _symbol_map(perms)
            total = add_tables(total, _permute_table(ptab, m), factor)
    info += "returned " + "; ".join(desc) + "\n"
    diff = tables_equal(ref, total)
    if diff is not None:
        return dict(base, status="violation", outcome="lossy",
                    finding="exploit_perm_sym-not-lossless",
                    detail=info + "re-expanded parts differ from the input "
                    + fmt_diff(diff))
    nperm = sum(len(k) for k in out)
    return dict(base, status="ok", outcome=f"perm_sym:{len(out)}keys:{nperm}")


# ------------------------------------------------------------------- (C)
def _sort_inputs():
    i, j, k, a, b, c, p, q = gen.syms("ijkabcpq")
    ia, ib_ = gen.sym("i_a"), gen.sym("i_b")
    V = lambda *x: AntiSymmetricTensor("V", x[:2], x[2:], 1)  # noqa
    f = lambda x, y: AntiSymmetricTensor("f", (x,), (y,), 1)  # noqa
    d = lambda x, y: AntiSymmetricTensor("d", (x,), (y,))  # noqa
    t2 = lambda *x: Amplitude("t2", x[2:], x[:2])  # noqa
    t1 = lambda x, y: Amplitude("t1", (y,), (x,))  # noqa
    Y = lambda x, y: Amplitude("Y", (y,), (x,))  # noqa
    kd = KroneckerDelta
    ex = [
        (kd(i, j) * f(a, b) - kd(a, b) * f(i, j) + V(i, b, j, a)
         + kd(i, j) * kd(a, b) * f(k, k), ("i", "j", "a", "b")),
        (f(i, j) * Y(j, a) - f(a, b) * Y(i, b) + V(j, a, i, b) * Y(j, b)
         + d(i, a), ("i", "a")),
        (d(i, j) * t2(i, k, a, b) * t2(j, k, a, b) + d(a, b) * t1(i, a)
         * t1(i, b) + d(i, a) * t1(i, a) + d(a, i) * t1(i, a) +
         d(p, q) * f(p, q), ()),
        (d(i, j) * d(j, i) + d(i, a) * d(a, i) + d(a, b) ** 2 * f(a, a), ()),
        (V(i, j, a, b) * t2(i, j, a, b) + V(i, j, k, a) * t2(i, j, a, b)
         * t1(k, b) + V(i, a, b, c) * t1(i, a) * kd(b, c), ()),
        (kd(ia, gen.sym("j_a")) * f(a, b) + kd(i, j) * f(a, b)
         + kd(p, i) * f(p, j), ("i", "j", "a", "b")),
        (Y(i, a) * d(a, i) + Rational(1, 2) * Y(j, b) * t2(i, j, a, b)
         * d(a, i) + Y(i, a) * t1(j, b) * d(b, j), ()),
        (V(i, j, a, b) * Y(j, b) + V(i, k, a, c) * t2(j, k, b, c) * Y(j, b)
         + f(i, j) * Y(j, a), ("i", "a")),
    ]
    return ex


def _key_by(fn_name, term, target, tname):
    """independent recomputation of the key of a term"""
    facs = term.args if isinstance(term, Mul) else (term,)
    objs = []
    for fct in facs:
        ex = 1
        b = fct
        if isinstance(fct, Pow) and fct.args[1].is_Integer:
            b, ex = fct.args[0], int(fct.args[1])
        objs.extend([b] * max(ex, 1) if not b.is_number else [])

    def sp(s):
        return s.space[0]

    def idx_of(o):
        if isinstance(o, Amplitude):
            return tuple(o.lower) + tuple(o.upper)
        if isinstance(o, AntiSymmetricTensor):
            return tuple(o.upper) + tuple(o.lower)
        if isinstance(o, NonSymmetricTensor):
            return tuple(o.idx)
        return tuple(o.args)
    if fn_name in ("by_delta_types", "by_delta_indices"):
        ks = []
        for o in objs:
            if isinstance(o, KroneckerDelta):
                ix = idx_of(o)
                if fn_name == "by_delta_types":
                    blk = "".join(sp(s) for s in ix)
                    if any(s.spin for s in ix):
                        blk += "_" + "".join(s.spin or "n" for s in ix)
                    ks.append(blk)
                else:
                    ks.append("".join(str(s) for s in ix))
        return tuple(sorted(ks)) or ("none",)
    ks = []
    found = False
    if fn_name != "by_tensor_block":
        # the target based keys list every tensor object once (a power
        # counts once), by_tensor_block lists it with multiplicity
        uniq = []
        for o in objs:
            if o not in uniq:
                uniq.append(o)
        objs = uniq
    for o in objs:
        if isinstance(o, (AntiSymmetricTensor, NonSymmetricTensor)) and \
                o.name == tname:
            found = True
            ix = idx_of(o)
            if fn_name == "by_tensor_block":
                blk = "".join(sp(s) for s in ix)
                if any(s.spin for s in ix):
                    blk += "_" + "".join(s.spin or "n" for s in ix)
                ks.append(blk)
            else:
                tix = [s for s in ix if s in target]
                if not tix:
                    ks.append("none")
                elif fn_name == "by_tensor_target_block":
                    blk = "".join(sp(s) for s in tix)
                    if any(s.spin for s in tix):
                        blk += "_" + "".join(s.spin or "n" for s in tix)
                    ks.append(blk)
                else:
                    ks.append("".join(s.name for s in tix))
    if not found:
        return ("none",) if fn_name == "by_tensor_block" else (f"no_{tname}",)
    return tuple(sorted(ks))


def _part_c(case):
    expr, tn = _sort_inputs()[case[1]]
    results = []
    kw = {} if tn is None else {"target_idx": list(gen.syms(tn))}
    e0 = Expr(expr, **kw)
    terms0 = e0.sympy.args if isinstance(e0.sympy, Add) else (e0.sympy,)
    if tn is None:
        tnames = gen.sympy_einstein_target(terms0[0])
    else:
        tnames = tn
    target = gen.syms(tnames)
    names = sorted({str(s) for s in e0.sympy.atoms(Index)} | set(tnames),
                   key=gen.name_key)
    no, nv = space_sizes([names])
    model = free_model(no, nv, has_spin(names), tag="c10c")
    ref = evaluate(e0.sympy, target, model)
    tnames_in = sorted({o.name for o in e0.sympy.atoms(AntiSymmetricTensor)}
                       | {o.name for o in e0.sympy.atoms(NonSymmetricTensor)})
    calls = [("by_delta_types", None), ("by_delta_indices", None)]
    for nm in tnames_in + ["zz"]:
        calls += [("by_tensor_block", nm), ("by_tensor_target_block", nm),
                  ("by_tensor_target_indices", nm)]
    for fn_name, nm in calls:
        key = repr(("C", case[1], fn_name, nm))
        base = {"key": key, "transitions": 1, "nontrivial": len(terms0) > 1}
        fn = getattr(sort, fn_name)
        args = (e0.copy(),) if nm is None else (e0.copy(), nm)
        out, err = safe_call(fn, *args)
        info = f"{fn_name}({e0.sympy}{', ' + nm if nm else ''}) targets={tnames}\n"
        if err:
            results.append(dict(base, status="violation", outcome="exception",
                                finding=f"{fn_name}-exception",
                                detail=info + err))
            continue
        total = Table(target, {})
        bad = None
        for k, part in out.items():
            psym = getattr(part, "sympy", part)
            total = add_tables(total, evaluate(psym, target, model))
            for t in (psym.args if isinstance(psym, Add) else (psym,)):
                if t is S.Zero:
                    continue
                exp_key = _key_by(fn_name, t, set(target), nm)
                if exp_key != k:
                    bad = (f"term {t} was put under key {k}, the key "
                           f"recomputed from the term is {exp_key}")
        diff = tables_equal(ref, total)
        if diff is not None:
            results.append(dict(base, status="violation", outcome="lossy",
                                finding=f"{fn_name}-not-lossless",
                                detail=info + "sum of parts differs "
                                + fmt_diff(diff)))
        elif bad:
            results.append(dict(base, status="violation", outcome="key",
                                finding=f"{fn_name}-wrong-key",
                                detail=info + bad))
        else:
            results.append(dict(base, status="ok",
                                outcome=f"{fn_name}:{len(out)}"))
    # filter_tensor
    for strict in ("low", "medium", "high"):
        for req in ([n] for n in tnames_in[:4]):
            for twice in (False, True):
                rq = req * 2 if twice else req
                key = repr(("C", case[1], "filter", strict, tuple(rq)))
                base = {"key": key, "transitions": 1,
                        "nontrivial": len(terms0) > 1}
                out, err = safe_call(filter_tensor, e0.copy(), rq, strict,
                                     False)
                info = f"filter_tensor({e0.sympy}, {rq}, {strict})\n"
                if err:
                    results.append(dict(base, status="violation",
                                        outcome="exception",
                                        finding="filter_tensor-exception",
                                        detail=info + err))
                    continue
                keep = S.Zero
                for t in terms0:
                    avail = _tensor_names(t)
                    want = {}
                    for r in rq:
                        want[r] = want.get(r, 0) + 1
                    if strict == "low":
                        ok = all(r in avail for r in rq)
                    elif strict == "medium":
                        ok = all(avail.get(r, 0) == c for r, c in want.items())
                    else:
                        ok = avail == want
                    if ok:
                        keep += t
                diff = tables_equal(evaluate(keep, target, model),
                                    evaluate(out.sympy, target, model))
                if diff is not None:
                    results.append(dict(base, status="violation",
                                        outcome="filter",
                                        finding="filter_tensor-wrong-terms",
                                        detail=info + f"returned {out.sympy}, "
                                        f"expected {keep}"))
                else:
                    results.append(dict(base, status="ok",
                                        outcome=f"filter:{strict}"))
    return results


def _tensor_names(term):
    cnt = {}
    facs = term.args if isinstance(term, Mul) else (term,)
    for fct in facs:
        ex = 1
        b = fct
        if isinstance(fct, Pow) and fct.args[1].is_Integer:
            b, ex = fct.args[0], int(fct.args[1])
        if isinstance(b, (AntiSymmetricTensor, NonSymmetricTensor)):
            cnt[b.name] = cnt.get(b.name, 0) + ex
    return cnt


def run_case(case):
    return {"A": _part_a, "A2": _part_a2, "B": _part_b,
            "C": _part_c}[case[0]](case)
