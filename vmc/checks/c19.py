"""C19  Results are independent of call history, hash seed and tensor-name
configuration.

Explored (exhaustively, simplest first):

* **history**: every word h over an alphabet of API calls (derivations that
  fill member caches, explicit and generic index requests that advance the
  global registry) up to a depth bound, and after each h every request p of a
  probe menu.  Every word h.p is executed against the real adcgen in its own
  pristine process: the history is replayed in a child forked from a process
  that has imported adcgen but issued no request, and every probe runs in a
  grandchild forked from the state reached by h (so the probes do not see
  each other).
* **hash seed**: the same words (depth <= 1) in fresh interpreters started
  with PYTHONHASHSEED = s for every s of a range.
* **tensor names**: the same words (depth <= 1) plus name-sensitive requests
  in fresh interpreters that import a scratch copy of the package (below
  /tmp, deleted again) whose tensor_names.json is replaced by each of a list
  of admissible configurations.

Oracle (independent of adcgen's simplify / pattern matching):

* value: the result of h.p must have the same *value* as the result of p in a
  pristine process under the default configuration.  Scalar results are
  evaluated by the reference interpreter (vmc.evalexpr: formal tensor entries,
  exact polynomial / rational-function arithmetic); operator-valued results
  (wavefunctions, precursor and intermediate states) are applied to the Fermi
  vacuum by a small determinant algebra written here (bitstrings, normal
  ordering worked out on orbital numbers) and compared as state vectors.
  A digest of the table is compared first; on a mismatch the pickled
  reference expression is re-evaluated in the same process and the tables are
  compared exactly.  For a non-default configuration the tensors are first
  renamed back by a tree walk (own code), i.e. "changes only by that
  renaming".
* text: str() after Expr.substitute_contracted() (the library's renaming of
  contracted indices to the lowest available names, which is part of the
  property) must be identical; if only the order of the terms differs this is
  reported with its own finding key (term-order).
* monitors: successive psi / norm_factor results (in the history and in the
  probe, which issues the request twice) must be pairwise disjoint in their
  contracted indices; names handed out for them and by get_generic_indices
  must not have been observed before in the process (in a returned result or
  an explicit request).
* configuration: additionally no tensor of the result may still carry the
  default name of a renamed field.
* Documented refusals (Inputerror / NotImplementedError in the pristine
  process as well) are counted, not reported.

Finding keys: <dimension>-value:<probe>, <dimension>-term-order:<probe>
(same term texts, other order), <dimension>-contracted-naming:<probe> (term
by term equal up to a permutation of the names of the contracted indices),
<dimension>-text:<probe>, <dimension>-exception:<probe>,
shared-contracted-indices:<probe>, generic-name-reused:<probe>,
default-name-left:<probe>.  Every process runs at most one request at a
time (worker -> history child -> probe grandchild are strictly nested), so
the number of running processes is bounded by the harness' --nproc.
C19_DUMP=<file> (debugging aid) writes all non-ok results as JSON.
"""
import atexit
import hashlib
import itertools
import json
import os
import pickle
import re
import shutil
import subprocess
import sys
import tempfile
import time
import traceback

from sympy import Add, Mul, Pow, S, sympify, Rational
from sympy.physics.secondquant import (NO, CreateFermion, AnnihilateFermion,
                                       FermionicOperator)

from adcgen.indices import Index
from adcgen.sympy_objects import (AntiSymmetricTensor, SymmetricTensor,
                                  Amplitude, NonSymmetricTensor,
                                  KroneckerDelta)

from .. import ring
from ..ring import Poly
from ..evalexpr import evaluate, evaluate_term, kind_of, Unsupported
from .common import free_model

ID = "C19"
RULE = ("state = (dimension, label, history word, probe request); every "
        "state is one execution of history+probe in its own pristine "
        "process, compared with the same probe in a pristine default "
        "process.  non-trivial = the history changed what the probe sees: "
        "the un-renamed result text differs from the history-free one (other "
        "generic names / other Index objects were handed out) or the probe "
        "returned an object cached by the history; for the seed / config "
        "dimensions every state with seed != reference seed / non-default "
        "names is non-trivial")
ASSUMPTIONS = [
    "histories are words over the listed alphabet up to the depth bound; "
    "deeper histories, other calls and other arguments are not explored",
    "hash seeds outside the enumerated range are not explored",
    "only the listed tensor-name configurations are explored (names without "
    "digits and without trailing 'c', pairwise different)",
    "values are compared in the free tensor model with N_occ, N_virt as "
    "listed per probe (3,3 at most): terms that need more distinct orbitals "
    "per space (quadruples) vanish there and are only covered by the text "
    "comparison",
    "the reference is the probe in a pristine process under PYTHONHASHSEED "
    "= VERIF_SEED mod 16 and the default tensor names",
    "operator-valued results are compared through their action on the Fermi "
    "vacuum (kets) / the adjoint action (bras)",
]

CASE_TIMEOUT = 1800
CHUNK = 1
FRESH_FORK = True
MEM_LIMIT_GB = 24     # exceptions of child processes are observations here

_ROOT_PID = os.getpid()
_SCRATCH = os.path.join(tempfile.gettempdir(), f"c19_run_{_ROOT_PID}")


def _cleanup():
    if os.getpid() == _ROOT_PID:
        shutil.rmtree(_SCRATCH, ignore_errors=True)


atexit.register(_cleanup)


# ==========================================================================
# the requests (alphabet of the histories and probe menu)
# ==========================================================================
class Env:
    """the objects a user session holds; created once per process before the
    first request (constructors issue no index request)"""

    def __init__(self):
        import adcgen
        from adcgen.tensor_names import tensor_names
        self.adcgen = adcgen
        self.names = tensor_names
        self.h = adcgen.Operators("mp")
        self.gs = adcgen.GroundState(self.h)
        self.isr = adcgen.IntermediateStates(self.gs, "pp")
        self.sm = adcgen.SecularMatrix(self.isr)
        self.gss = adcgen.GroundState(self.h, first_order_singles=True)
        self.idx = adcgen.Indices()

    def itmd(self, name):
        return self.adcgen.Intermediates().available[name]


def _user_expr(E, real):
    """a user-built expression that uses the *configured* names"""
    from adcgen import Expr, get_symbols
    n = E.names
    i, j, a, b = get_symbols("ijab")
    V1 = AntiSymmetricTensor(n.eri, (i, j), (a, b))
    V2 = AntiSymmetricTensor(n.eri, (a, b), (i, j))
    f = AntiSymmetricTensor(n.fock, (i,), (j,))
    t = Amplitude(n.gs_amplitude + "1", (a, b), (i, j))
    tcc = Amplitude(n.gs_amplitude + "1cc", (a, b), (i, j))
    e = (V1 * t - 2 * V2 * tcc + V1 * tcc * f
         + NonSymmetricTensor(n.orb_energy, (i,)) * V2 * t)
    return Expr(e, real=real)


def _default_expr():
    """an expression with the *default* names (input of rename_tensors)"""
    from adcgen import Expr, get_symbols
    i, j, a, b = get_symbols("ijab")
    e = (AntiSymmetricTensor("V", (i, j), (a, b))
         * Amplitude("t1", (a, b), (i, j))
         * AntiSymmetricTensor("f", (i,), (j,))
         + Amplitude("t2cc", (a,), (i,)) * Amplitude("X", (a,), (i,))
         * AntiSymmetricTensor("d", (j,), (j,))
         + Amplitude("Y", (a, b), (i, j)) * SymmetricTensor("v", (i, j), (a, b))
         * NonSymmetricTensor("e", (a,))
         + AntiSymmetricTensor("p2", (i,), (j,))
         * SymmetricTensor("D", (a,), (i,), -1)
         * AntiSymmetricTensor("f", (j,), (a,)))
    return Expr(e)


def _spin_e2(E):
    from adcgen import Expr, transform_to_spatial_orbitals
    e = Expr(E.gs.energy(2))
    return transform_to_spatial_orbitals(e, "", "", restricted=False,
                                         expand_eri=False)


def _expand_e2(E):
    from adcgen import Expr
    return Expr(E.gs.energy(2), real=True).expand_intermediates()


def _orders(E):
    from adcgen import Expr
    e = Expr(E.gs.expectation_value(2, 1))
    return sorted(int(t.order) for t in e.terms)


def _itmd_spin(E):
    from adcgen import get_symbols
    return E.itmd("t2_2").expand_itmd(indices=get_symbols("ijab", "aaaa"))


# id -> dict(fn, kind, tg, model, repeat, fresh, explicit)
#   kind: scalar | ket | bra | indices | plain
#   tg:   names of the target indices of the result
#   fresh: the contracted indices of every call must be never-used names
#   explicit: index names the request mentions explicitly
def _R(fn, kind="scalar", tg="", model=(3, 3), repeat=1, fresh=False,
       explicit="", spin=False):
    return dict(fn=fn, kind=kind, tg=tg, model=model, repeat=repeat,
                fresh=fresh, explicit=explicit, spin=spin)


def _model(spec):
    no, nv = spec["model"]
    return free_model(no, nv, spec["spin"], tag="c19")


REQ = {
    "e2": _R(lambda E: E.gs.energy(2), model=(2, 2)),
    "e3": _R(lambda E: E.gs.energy(3), model=(2, 2)),
    "psi1k": _R(lambda E: E.gs.psi(1, "ket"), "ket", repeat=2, fresh=True),
    "psi2b": _R(lambda E: E.gs.psi(2, "bra"), "bra", repeat=2, fresh=True),
    "nf2": _R(lambda E: E.gs.norm_factor(2), model=(2, 2), repeat=2,
              fresh=True),
    "nf4": _R(lambda E: E.gs.norm_factor(4), repeat=1, fresh=True),
    "ov2": _R(lambda E: E.gs.overlap(2), model=(2, 2)),
    "ev21": _R(lambda E: E.gs.expectation_value(2, 1)),
    # the same cached method called with keywords, and with the two integer
    # arguments swapped (a member cache keyed on an ambiguous argument tuple
    # would serve the wrong entry)
    "ev21kw": _R(lambda E: E.gs.expectation_value(order=2, n_particles=1)),
    "ev12": _R(lambda E: E.gs.expectation_value(1, 2), model=(2, 2)),
    "prec1": _R(lambda E: E.isr.precursor(1, "ph", "ket", "ia"), "ket",
                tg="ia", explicit="ia"),
    "prec2b": _R(lambda E: E.isr.precursor(2, "ph", "bra", "ia"), "bra",
                 tg="ia", explicit="ia"),
    "is2": _R(lambda E: E.isr.intermediate_state(2, "ph", "ket", "ia"),
              "ket", tg="ia", explicit="ia"),
    "ovp2": _R(lambda E: E.isr.overlap_precursor(2, "ph,ph", "ia,jb"),
               tg="iajb", explicit="iajb"),
    "m1": _R(lambda E: E.sm.isr_matrix_block(1, "ph,ph", "ia,jb"),
             tg="iajb", explicit="iajb"),
    "mvp1": _R(lambda E: E.sm.mvp_block_order(1, "ph", "ph,ph", "ia"),
               tg="ia", explicit="ia"),
    "amp1": _R(lambda E: E.gs.amplitude(1, "pphh", "ijab"), tg="ijab",
               explicit="ijab"),
    "amp2": _R(lambda E: E.gs.amplitude(2, "ph", "ia"), tg="ia",
               explicit="ia"),
    "amp2s": _R(lambda E: E.gss.mp_amplitude(2, "ph", "ia"), tg="ia",
                explicit="ia"),
    # explicit request of names from the range of the generic indices
    "xg3": _R(lambda E: E.gss.mp_amplitude(2, "ph", "i3a3"), tg="i3a3",
              explicit="i3a3"),
    "t22": _R(lambda E: E.itmd("t2_2").expand_itmd(), tg="ijab",
              explicit="ijab"),
    "t22p": _R(lambda E: E.itmd("t2_2").expand_itmd(indices="jkbc"),
               tg="jkbc", explicit="jkbc"),
    "t22nf": _R(lambda E: E.itmd("t2_2").expand_itmd(fully_expand=False),
                tg="ijab", explicit="ijab"),
    "p02": _R(lambda E: E.itmd("p0_2_oo").expand_itmd(fully_expand=False),
              tg="ij", explicit="ij"),
    # third-order intermediates expressed by the tensors of lower ones: every
    # tensor name in the result has to follow the configured names
    "p03ov": _R(lambda E: E.itmd("p0_3_ov").expand_itmd(fully_expand=False),
                tg="ia", explicit="ia"),
    "t23nf": _R(lambda E: E.itmd("t2_3").expand_itmd(fully_expand=False),
                tg="ijab", explicit="ijab", model=(2, 2)),
    "gen53": _R(lambda E: E.idx.get_generic_indices(occ=5, virt=3),
                "indices", fresh=True),
    "get3": _R(lambda E: E.idx.get_indices("i3j3a3k4"), "indices",
               explicit="i3j3a3k4"),
    "getrev": _R(lambda E: E.idx.get_indices("dcbalkji"), "indices",
                 explicit="dcbalkji"),
    "getspin": _R(lambda E: E.idx.get_indices("jbia", "bbbb"), "indices"),
    "spin_e2": _R(_spin_e2, model=(2, 2), spin=True),
    "itmd_spin": _R(_itmd_spin, tg="ijab"),
    # name-sensitive requests (configuration dimension)
    "real_e2": _R(lambda E: E.adcgen.Expr(E.gs.energy(2)).make_real(),
                  model=(2, 2)),
    "expand_e2": _R(_expand_e2, model=(2, 2)),
    "orders": _R(_orders, "plain"),
    "user": _R(lambda E: _user_expr(E, False), model=(2, 2),
               explicit="ijab"),
    "user_real": _R(lambda E: _user_expr(E, True), model=(2, 2),
                    explicit="ijab"),
    "rename": _R(lambda E: E.names.rename_tensors(_default_expr()),
                 model=(2, 2), explicit="ijab"),
}

ALPHABET = ["e2", "e3", "psi1k", "psi2b", "nf2", "ov2", "ev21", "prec1",
            "gen53", "get3", "getrev", "getspin", "t22", "amp2", "ev21kw"]
PROBES = ["e2", "e3", "psi1k", "psi2b", "nf2", "nf4", "ov2", "ev21", "ev12",
          "prec1",
          "prec2b", "is2", "ovp2", "m1", "mvp1", "amp1", "amp2", "amp2s",
          "t22", "t22p", "t22nf", "p02", "gen53", "get3", "spin_e2",
          "itmd_spin"]
HIST_ONLY_PROBES = ["xg3"]
CFG_PROBES = ["e2", "psi1k", "psi2b", "nf2", "ev21", "prec2b", "ovp2", "m1",
              "mvp1", "amp1", "amp2", "amp2s", "t22", "t22nf", "p02",
              "p03ov", "t23nf",
              "real_e2", "expand_e2", "orders", "user", "user_real",
              "rename"]
CFG_ALPHABET = ["e2", "ev21", "t22", "amp2", "get3"]

DEFAULT_NAMES = {
    "eri": "V", "coulomb": "v", "fock": "f", "operator": "d",
    "gs_amplitude": "t", "gs_density": "p", "left_adc_amplitude": "X",
    "right_adc_amplitude": "Y", "orb_energy": "e", "sym_orb_denom": "D",
}
CONFIGS = {
    "letters": {"eri": "W", "coulomb": "w", "fock": "F", "operator": "B",
                "gs_amplitude": "T", "gs_density": "P",
                "left_adc_amplitude": "L", "right_adc_amplitude": "R",
                "orb_energy": "u", "sym_orb_denom": "M"},
    "words": {"eri": "eri", "coulomb": "coul", "fock": "fock",
              "operator": "op", "gs_amplitude": "amp", "gs_density": "rho",
              "left_adc_amplitude": "xl", "right_adc_amplitude": "yr",
              "orb_energy": "eps", "sym_orb_denom": "den"},
    "swap": {"eri": "f", "coulomb": "v", "fock": "V", "operator": "d",
             "gs_amplitude": "t", "gs_density": "p",
             "left_adc_amplitude": "Y", "right_adc_amplitude": "X",
             "orb_energy": "e", "sym_orb_denom": "D"},
    "partial": {"eri": "g", "coulomb": "v", "fock": "f", "operator": "d",
                "gs_amplitude": "s", "gs_density": "p",
                "left_adc_amplitude": "X", "right_adc_amplitude": "Z",
                "orb_energy": "e", "sym_orb_denom": "D"},
}


def _depth(tier):
    return 2 if tier == "quick" else 3


def _seeds(tier):
    return list(range(4)) if tier == "quick" else list(range(16))


def _own_seed():
    try:
        return int(os.environ.get("PYTHONHASHSEED", "0"))
    except ValueError:
        return 0


def bounds(tier):
    return {"history_alphabet": ALPHABET, "history_depth": _depth(tier),
            "probes": PROBES, "history_only_probes": HIST_ONLY_PROBES,
            "hash_seeds": _seeds(tier),
            "seed_history_depth": 1, "seed_of_history_dimension": _own_seed(),
            "configs": CONFIGS, "config_history_alphabet": CFG_ALPHABET,
            "config_history_depth": 1, "config_probes": CFG_PROBES,
            "models": {k: v["model"] for k, v in REQ.items()}}


def _words(alphabet, depth):
    out = [()]
    for d in range(1, depth + 1):
        out.extend(itertools.product(alphabet, repeat=d))
    return out


def generate(tier):
    _ensure_ref().build_all(_words(ALPHABET, 1))
    cases = [("hist", "", w) for w in _words(ALPHABET, _depth(tier))]
    own = _own_seed()
    for s in _seeds(tier):
        for w in _words(ALPHABET, 1):
            if s == own and w:
                # seed of this run: the history dimension already runs under
                # it; only the fresh-interpreter / forked-child consistency
                # of the history-free requests is checked here
                continue
            cases.append(("seed", s, w))
    for c in CONFIGS:
        for w in _words(CFG_ALPHABET, 1):
            cases.append(("cfg", c, w))
    # factors of ONE result must not share contracted indices either: the
    # norm factor of order n against the series 1/(1 + sum_k S_k) built from
    # the separately requested overlaps (added after seeded change C19_b)
    for label in ("mp:0", "mp:1") if tier == "quick" else \
            ("mp:0", "mp:1", "re:0"):
        for n in (2, 3, 4) if tier == "quick" else (2, 3, 4, 5):
            cases.append(("self", label, (n,)))
    return cases


def describe(case):
    dim, label, word = case
    if dim == "self":
        return {"dimension": "self-consistency of norm_factor",
                "ground_state": label, "order": list(word)}
    return {"dimension": dim, "label": label, "history": list(word),
            "probes": CFG_PROBES if dim == "cfg" else
            PROBES + (HIST_ONLY_PROBES if dim == "hist" else [])}


# ==========================================================================
# process plumbing
# ==========================================================================
def _in_child(fn, *args):
    """run fn(*args) in a forked child, return its (picklable) result"""
    r, w = os.pipe()
    pid = os.fork()
    if pid == 0:
        code = 0
        try:
            os.close(r)
            try:
                out = ("ok", fn(*args))
            except BaseException:  # noqa
                out = ("exc", traceback.format_exc())
            with os.fdopen(w, "wb") as f:
                pickle.dump(out, f, protocol=pickle.HIGHEST_PROTOCOL)
        except BaseException:  # noqa
            code = 1
        finally:
            os._exit(code)
    os.close(w)
    with os.fdopen(r, "rb") as f:
        data = f.read()
    os.waitpid(pid, 0)
    if not data:
        return ("exc", "child died without a result")
    return pickle.loads(data)


# ==========================================================================
# independent semantics
# ==========================================================================
def _digest(data):
    h = hashlib.sha1()
    for k in sorted(data, key=repr):
        p = data[k]
        items = sorted((tuple(sorted(ring.atom_name(i) for i in m)), str(c))
                       for m, c in p.t.items())
        h.update(repr((k, items)).encode())
    return h.hexdigest()


def _data_diff(a, b):
    """first differing entry of two {key: Poly} dicts, exact"""
    for k in sorted(set(a) | set(b), key=repr):
        va = a.get(k, ring.ZERO)
        vb = b.get(k, ring.ZERO)
        if not ring.equal(va, vb):
            return (k, va, vb)
    return None


def _ops_of(arg):
    out = []
    for f in Mul.make_args(arg):
        if isinstance(f, Pow) and isinstance(f.base, FermionicOperator) \
                and f.exp.is_Integer and f.exp > 0:
            out.extend([f.base] * int(f.exp))
        elif isinstance(f, FermionicOperator):
            out.append(f)
        else:
            raise Unsupported(f"operator string factor {f!r}")
    return [(isinstance(o, CreateFermion), o.args[0]) for o in out]


def _split_operator_term(term):
    """(scalar factor, [(normal_ordered?, [(is_create, Index)...]), ...])"""
    scal = S.One
    groups = []
    for f in Mul.make_args(term):
        if isinstance(f, NO):
            groups.append((True, _ops_of(f.args[0])))
        elif isinstance(f, FermionicOperator):
            groups.append((False, _ops_of(f)))
        elif isinstance(f, Pow) and isinstance(f.base, (NO, FermionicOperator)):
            if not (f.exp.is_Integer and f.exp > 0):
                raise Unsupported(f"power of an operator {f!r}")
            for _ in range(int(f.exp)):
                if isinstance(f.base, NO):
                    groups.append((True, _ops_of(f.base.args[0])))
                else:
                    groups.append((False, _ops_of(f.base)))
        elif f.has(FermionicOperator) or f.has(NO):
            raise Unsupported(f"operator inside {type(f).__name__}")
        else:
            scal = scal * f
    return scal, groups


def _apply(ops, det):
    """apply the operator string (left to right as written) to the
    determinant `det` (bit mask); (sign, det') or (0, None)"""
    sign = 1
    for cr, p in reversed(ops):
        bit = 1 << p
        if bool(det & bit) == cr:
            return 0, None
        if bin(det & (bit - 1)).count("1") & 1:
            sign = -sign
        det ^= bit
    return sign, det


def state_table(expr, target, model, bra):
    """{(target assignment, determinant): Poly}: the operator-valued
    expression applied to the Fermi vacuum (ket) or, for a bra, its adjoint
    applied to the Fermi vacuum.  Normal ordering is carried out here on
    orbital numbers (quasi-creators a+_virt, a_occ to the left, stable, with
    the sign of the permutation)."""
    from sympy import expand
    sp = model.space
    phi0 = 0
    for o in sp.occ:
        phi0 |= 1 << o
    is_occ = [s == "o" for s in sp.orb_space]
    target = tuple(target)
    nt = len(target)
    out = {}
    expr = expand(sympify(expr))
    for term in Add.make_args(expr):
        if term is S.Zero:
            continue
        scal, groups = _split_operator_term(term)
        opidx = []
        for _, ops in groups:
            for _, s in ops:
                if s not in opidx and s not in target:
                    opidx.append(s)
        axes = target + tuple(opidx)
        pos = {s: k for k, s in enumerate(axes)}
        tab = evaluate_term(scal, axes, model)
        for asg, val in tab.data.items():
            flat = []
            sign = 1
            for ordered, ops in groups:
                g = [(cr, asg[pos[s]]) for cr, s in ops]
                if ordered:
                    qc, qa = [], []
                    for cr, p in g:
                        if cr != is_occ[p]:      # a+_virt or a_occ
                            if len(qa) & 1:
                                sign = -sign
                            qc.append((cr, p))
                        else:
                            qa.append((cr, p))
                    g = qc + qa
                flat.extend(g)
            if bra:
                flat = [(not cr, p) for cr, p in reversed(flat)]
            sg, det = _apply(flat, phi0)
            if not sg:
                continue
            key = (asg[:nt], det)
            acc = out.get(key)
            if acc is None:
                out[key] = val * (sign * sg)
            else:
                acc.iadd(val, sign * sg)
    return {k: v for k, v in out.items() if v.t}


def _rename_back_fn(cfg):
    """name map  configured -> default  (own code; amplitude and density
    names carry an order / 'cc' extension)"""
    if not cfg:
        return None
    simple = {}
    for field, new in cfg.items():
        if field in ("gs_amplitude", "gs_density"):
            continue
        if new != DEFAULT_NAMES[field]:
            simple[new] = DEFAULT_NAMES[field]
    amp, dens = cfg["gs_amplitude"], cfg["gs_density"]
    amp_re = re.compile(re.escape(amp) + r"(\d*(cc)?)$")
    dens_re = re.compile(re.escape(dens) + r"(\d*)$")

    def back(name):
        if name in simple:
            return simple[name]
        if amp != DEFAULT_NAMES["gs_amplitude"]:
            m = amp_re.match(name)
            if m:
                return DEFAULT_NAMES["gs_amplitude"] + m.group(1)
        if dens != DEFAULT_NAMES["gs_density"]:
            m = dens_re.match(name)
            if m:
                return DEFAULT_NAMES["gs_density"] + m.group(1)
        return name
    return back


def _default_names_left(sym, cfg):
    """tensor names of the result that are default names of a renamed field
    (and not themselves a configured name)"""
    configured = set(cfg.values())
    changed = {DEFAULT_NAMES[f] for f in cfg if cfg[f] != DEFAULT_NAMES[f]
               and f not in ("gs_amplitude", "gs_density")}
    pats = []
    if cfg["gs_amplitude"] != DEFAULT_NAMES["gs_amplitude"]:
        pats.append(re.compile(
            re.escape(DEFAULT_NAMES["gs_amplitude"]) + r"\d*(cc)?$"))
    if cfg["gs_density"] != DEFAULT_NAMES["gs_density"]:
        pats.append(re.compile(
            re.escape(DEFAULT_NAMES["gs_density"]) + r"\d*$"))
    out = set()
    for o in sym.atoms(AntiSymmetricTensor, NonSymmetricTensor):
        n = o.name
        if n in configured:
            continue
        if n in changed or any(p.match(n) for p in pats):
            out.add(n)
    return sorted(out)


def rename_tree(o, back):
    """rebuild the sympy tree with every tensor renamed by `back`"""
    if isinstance(o, Index) or not getattr(o, "args", ()):
        return o
    k = kind_of(o)
    if k == "nonsym":
        return NonSymmetricTensor(back(o.name), o.idx)
    if k is not None:
        return type(o)(back(o.name), tuple(o.upper), tuple(o.lower),
                       o.bra_ket_sym)
    return o.func(*[rename_tree(a, back) for a in o.args])


# ==========================================================================
# running a request and recording what is observed
# ==========================================================================
REFUSALS = ("Inputerror", "NotImplementedError")


class Ctx:
    """what has been observed so far in this process"""

    def __init__(self):
        self.seen = set()          # (space, spin, name) observed so far
        self.fresh = []            # [(request id, {Index objects})]
        self.results = []          # ids of returned result objects
        self.keep = []             # keeps the objects alive (ids stay valid)
        self.hist_errors = []


def _idx_key(s):
    return (s.space[0], s.spin, s.name)


def _explicit_keys(names, spins=None):
    from adcgen.indices import split_idx_string, index_space
    out = set()
    for n in split_idx_string(names) if names else []:
        out.add((index_space(n)[0], "", n))
    return out


def _flatten_indices(res):
    out = []
    for lst in res.values():
        out.extend(lst)
    return out


def _call(q, E):
    """one call of request q: ('ok', result) | ('exc', type name, text)"""
    try:
        return ("ok", REQ[q]["fn"](E))
    except Exception as e:  # noqa
        return ("exc", type(e).__name__,
                f"{type(e).__name__}: {e}\n{traceback.format_exc(limit=8)}")


def _run_history_call(q, E, ctx):
    spec = REQ[q]
    out = _call(q, E)
    if out[0] != "ok":
        ctx.hist_errors.append((q, out[1], out[2]))
        return
    res = out[1]
    ctx.keep.append(res)
    ctx.results.append(id(res))
    ctx.seen |= _explicit_keys(spec["explicit"])
    if spec["kind"] == "indices":
        idx = _flatten_indices(res)
        if spec["fresh"]:
            ctx.fresh.append((q, set(idx)))
        ctx.seen |= {_idx_key(s) for s in idx}
        return
    if spec["kind"] == "plain":
        return
    sym = sympify(getattr(res, "sympy", res))
    atoms = sym.atoms(Index)
    if spec["fresh"]:
        tg = _explicit_keys(spec["tg"])
        ctx.fresh.append((q, {s for s in atoms if _idx_key(s) not in tg}))
    ctx.seen |= {_idx_key(s) for s in atoms}


def _observe(q, E, ctx, cfg):
    """issue request q (repeat times) in this process and record everything
    the oracle needs; returns a picklable record"""
    from adcgen import Expr, get_symbols
    spec = REQ[q]
    back = _rename_back_fn(cfg)
    rec = {"q": q, "calls": [], "monitor": [], "cache_hit": False}
    earlier = list(ctx.fresh)
    seen = set(ctx.seen) | _explicit_keys(spec["explicit"])
    for rep in range(spec["repeat"]):
        t0 = time.time()
        out = _call(q, E)
        if out[0] != "ok":
            rec["calls"].append({"exc": out[1], "exc_text": out[2]})
            break
        res = out[1]
        ctx.keep.append(res)
        call = {"exc": None, "wall": round(time.time() - t0, 3)}
        if id(res) in ctx.results:
            rec["cache_hit"] = True
        if spec["kind"] == "plain":
            call["plain"] = json.dumps(res, default=str)
            rec["calls"].append(call)
            continue
        if spec["kind"] == "indices":
            idx = _flatten_indices(res)
            call["shape"] = sorted((k[0][0], k[1], len(v))
                                   for k, v in res.items())
            call["names"] = [str(s) for s in idx]
            call["raw"] = str(call["names"])
            wrong = [str(s) for (sp, spin), v in res.items() for s in v
                     if s.space != sp or s.spin != spin]
            if wrong or len(set(idx)) != len(idx):
                rec["monitor"].append(
                    ("index-request-wrong-objects",
                     f"call {rep}: returned {res}"))
            again = None
            if spec["fresh"]:
                hit = sorted(_idx_key(s) for s in idx if _idx_key(s) in seen)
                if hit:
                    rec["monitor"].append(
                        ("generic-name-reused",
                         f"call {rep} handed out {call['names']}; already "
                         f"observed in this process: {hit}"))
                for q0, old in earlier:
                    both = set(idx) & old
                    if both:
                        rec["monitor"].append(
                            ("shared-contracted-indices",
                             f"call {rep} shares {sorted(map(str, both))} "
                             f"with an earlier result of {q0}"))
                earlier.append((q, set(idx)))
            else:
                again = _call(q, E)
                if again[0] != "ok" or \
                        [id(s) for s in _flatten_indices(again[1])] != \
                        [id(s) for s in idx]:
                    rec["monitor"].append(
                        ("index-request-not-stable",
                         f"second identical request returned {again[1:]}"))
            seen |= {_idx_key(s) for s in idx}
            rec["calls"].append(call)
            continue
        # ---- expression valued
        sym = sympify(getattr(res, "sympy", res))
        call["raw"] = str(sym)
        if back is not None:
            left = _default_names_left(sym, cfg)
            if left:
                rec["monitor"].append(
                    ("default-name-left",
                     f"call {rep}: the result uses the default tensor "
                     f"name(s) {left} although the configuration renames "
                     f"them: {call['raw'][:800]}"))
            sym = rename_tree(sym, back)
        tg = tuple(get_symbols(spec["tg"])) if spec["tg"] else ()
        atoms = sym.atoms(Index)
        contracted = {s for s in atoms if s not in tg}
        if spec["fresh"]:
            hit = sorted(_idx_key(s) for s in contracted
                         if _idx_key(s) in seen)
            if hit:
                rec["monitor"].append(
                    ("generic-name-reused",
                     f"call {rep}: contracted indices {hit} of the result "
                     "were already observed in this process"))
            for q0, old in earlier:
                both = contracted & old
                byname = {_idx_key(s) for s in contracted} & \
                    {_idx_key(s) for s in old}
                if both or byname:
                    rec["monitor"].append(
                        ("shared-contracted-indices",
                         f"call {rep} shares contracted indices "
                         f"{sorted(byname)} with an earlier result of {q0}"))
            earlier.append((q, contracted))
        seen |= {_idx_key(s) for s in atoms}
        # value
        model = _model(spec)
        try:
            if spec["kind"] == "scalar":
                data = evaluate(sym, tg, model, expand=True).data
            else:
                data = state_table(sym, tg, model, spec["kind"] == "bra")
            call["digest"] = _digest(data)
            call["nnz"] = len(data)
        except Unsupported as e:
            call["unsupported"] = str(e)
            data = None
        call["pickle"] = pickle.dumps((sym, tg))
        # text after the library's renaming of contracted indices
        try:
            ex = Expr(sym, target_idx=list(tg) if tg else None)
            can = sympify(ex.substitute_contracted().sympy)
            call["canon"] = str(can)
            call["terms"] = sorted(str(t) for t in Add.make_args(can))
            call["canon_pickle"] = pickle.dumps((can, tg))
        except Exception as e:  # noqa
            call["canon_exc"] = f"{type(e).__name__}: {e}\n" + \
                traceback.format_exc(limit=6)
        call["n_terms"] = len(Add.make_args(sym))
        call["_data"] = data
        rec["calls"].append(call)
    return rec


def _strip(rec):
    for c in rec["calls"]:
        c.pop("_data", None)
    return rec


# ==========================================================================
# verdicts
# ==========================================================================
def _judge(dim, label, word, q, rec, ref, cfg):
    """result dicts for one (history, probe) state"""
    spec = REQ[q]
    key = json.dumps([dim, label, list(word), q])
    base = {"key": key, "transitions": len(word) + len(rec["calls"])}
    ctxt = (f"dimension={dim} label={label!r} history={list(word)} "
            f"probe={q}\n")
    nontrivial = dim != "hist"
    tags = []
    problems = []      # (finding, detail)
    for finding, detail in rec["monitor"]:
        problems.append((f"{finding}:{q}", detail))
    for k, call in enumerate(rec["calls"]):
        rcall = ref["calls"][min(k, len(ref["calls"]) - 1)]
        if call.get("exc") or rcall.get("exc"):
            if call.get("exc") == rcall.get("exc"):
                tags.append("refusal:" + call["exc"]
                            if call["exc"] in REFUSALS else
                            "same-exception:" + call["exc"])
                if call["exc"] not in REFUSALS:
                    problems.append(
                        (f"exception:{q}", "the request raises in the "
                         "pristine process as well:\n" + call["exc_text"]))
            else:
                problems.append(
                    (f"{dim}-exception:{q}",
                     f"call {k}: pristine default process: "
                     f"{rcall.get('exc') or 'returns'}; here: "
                     f"{call.get('exc_text') or 'returns'}"))
            continue
        if spec["kind"] == "plain":
            tags.append("plain")
            if call["plain"] != rcall["plain"]:
                problems.append((f"{dim}-value:{q}",
                                 f"returned {call['plain']}, pristine "
                                 f"default process {rcall['plain']}"))
            continue
        if spec["kind"] == "indices":
            tags.append("idx")
            if call["raw"] != rcall["raw"]:
                nontrivial = nontrivial or bool(word)
                tags.append("names-moved")
            if call["shape"] != rcall["shape"]:
                problems.append((f"{dim}-value:{q}",
                                 f"returned {call['names']}, pristine "
                                 f"default process {rcall['names']}"))
            if not spec["fresh"] and call["names"] != rcall["names"]:
                problems.append((f"{dim}-value:{q}",
                                 f"returned {call['names']} for an explicit "
                                 f"request of {rcall['names']}"))
            continue
        moved = call["raw"] != rcall["raw"]
        if moved and word:
            nontrivial = True
        tags.append(f"{call['n_terms']}t")
        tags.append("names-moved" if moved else "names-same")
        info = (f"call {k}\nresult here:      {call['raw'][:1500]}\n"
                f"pristine default: {rcall['raw'][:1500]}\n")
        # ---- value
        value_differs = False
        if "unsupported" in call or "unsupported" in rcall:
            problems.append(("oracle-unsupported:" + q, info +
                             str(call.get("unsupported") or
                                 rcall.get("unsupported"))))
        elif call["digest"] != rcall["digest"]:
            diff = _exact_diff(spec, call, rcall)
            if diff is None:
                tags.append("value-equal-other-form")
            else:
                value_differs = True
                problems.append(
                    (f"{dim}-value:{q}", "the values differ, e.g. at "
                     f"{diff[0]}: here {diff[1]!r}, pristine {diff[2]!r}\n"
                     + info))
        # ---- text after renaming contracted indices to the lowest names
        if value_differs:
            pass    # the text necessarily differs as well
        elif "canon_exc" in call or "canon_exc" in rcall:
            if ("canon_exc" in call) != ("canon_exc" in rcall):
                problems.append(
                    (f"{dim}-text:{q}", info + "substitute_contracted: "
                     f"{call.get('canon_exc', 'ok')} / pristine "
                     f"{rcall.get('canon_exc', 'ok')}"))
            else:
                tags.append("canon-refused")
        elif call["canon"] != rcall["canon"]:
            tinfo = (info + "after substitute_contracted():\n"
                     f"here:     {call['canon'][:1500]}\n"
                     f"pristine: {rcall['canon'][:1500]}\n")
            if call["terms"] == rcall["terms"]:
                problems.append((f"{dim}-term-order:{q}", tinfo +
                                 "(same multiset of term texts, other order)"))
            elif _alpha_equivalent(call, rcall):
                problems.append(
                    (f"{dim}-contracted-naming:{q}", tinfo +
                     "(term by term the two texts differ only by a "
                     "permutation of the names of the contracted indices: "
                     "substitute_contracted() hands out the lowest names in "
                     "the order of the original names)"))
            else:
                problems.append((f"{dim}-text:{q}", tinfo))
    if rec["cache_hit"]:
        tags.append("cache")
        nontrivial = nontrivial or bool(word)
    if dim == "seed" and str(label) == os.environ.get("C19_REF_SEED", "0") \
            and not word:
        nontrivial = False
    outcome = q + "|" + ",".join(dict.fromkeys(tags))
    if not problems:
        return [dict(base, status="ok", outcome=outcome + "|ok",
                     nontrivial=nontrivial)]
    out = []
    seen = set()
    for finding, detail in problems:
        if finding in seen:
            continue
        seen.add(finding)
        out.append(dict(base, status="violation",
                        outcome=outcome + "|" + finding.split(":")[0],
                        nontrivial=nontrivial, finding=finding,
                        detail=ctxt + detail))
    return out


def _alpha_canon(term, tg):
    """smallest text of a term over all permutations of the names of its
    non-target indices within each (space, spin) class (own brute force)"""
    idx = sorted((s for s in term.atoms(Index) if s not in tg),
                 key=lambda s: (_idx_key(s), s.dummy_index))
    classes = {}
    for s in idx:
        classes.setdefault((s.space, s.spin), []).append(s)
    groups = list(classes.values())
    n = 1
    for g in groups:
        for k in range(2, len(g) + 1):
            n *= k
    if n > 50000:
        return None
    best = None
    for perms in itertools.product(*[itertools.permutations(g)
                                     for g in groups]):
        sub = {}
        for g, p in zip(groups, perms):
            sub.update({o: nw for o, nw in zip(g, p) if o is not nw})
        t = term.xreplace(sub) if sub else term
        txt = str(t)
        if best is None or txt < best:
            best = txt
    return best


def _alpha_equivalent(call, rcall):
    """do the two canonical texts agree term by term up to a renaming of the
    contracted indices?"""
    if "canon_pickle" not in call or "canon_pickle" not in rcall:
        return False
    a, tga = pickle.loads(call["canon_pickle"])
    b, tgb = pickle.loads(rcall["canon_pickle"])
    ta = {str(t): t for t in Add.make_args(a)}
    tb = {str(t): t for t in Add.make_args(b)}
    if len(ta) != len(Add.make_args(a)) or len(tb) != len(Add.make_args(b)):
        return False
    ra = [t for k, t in ta.items() if k not in tb]
    rb = [t for k, t in tb.items() if k not in ta]
    if len(ra) != len(rb):
        return False
    ca = sorted(str(_alpha_canon(t, tga)) for t in ra)
    cb = sorted(str(_alpha_canon(t, tgb)) for t in rb)
    return "None" not in ca and ca == cb


def _exact_diff(spec, call, rcall):
    """exact comparison of the value of this call with the reference
    expression (re-evaluated here)"""
    data = call.get("_data")
    rsym, rtg = pickle.loads(rcall["pickle"])
    model = _model(spec)
    if spec["kind"] == "scalar":
        rdata = evaluate(rsym, rtg, model, expand=True).data
    else:
        rdata = state_table(rsym, rtg, model, spec["kind"] == "bra")
    if data is None:
        sym, tg = pickle.loads(call["pickle"])
        if spec["kind"] == "scalar":
            data = evaluate(sym, tg, model, expand=True).data
        else:
            data = state_table(sym, tg, model, spec["kind"] == "bra")
    return _data_diff(data, rdata)


# ==========================================================================
# exploration of one history (in a pristine process)
# ==========================================================================
def _probe_child(dim, label, word, q, E, ctx, ref, cfg):
    rec = _observe(q, E, ctx, cfg)
    if ref is None:
        return _strip(rec)
    return _judge(dim, label, word, q, rec, ref, cfg)


def _registry_signature(E):
    """canonical form of the registry / cache state reached (read-only)"""
    idx = E.idx
    sig = {"symbols": sorted((sp, spin, n) for sp, d in idx._symbols.items()
                             for spin, dd in d.items() for n in dd),
           "counter": sorted((sp, spin, c) for sp, d in idx._counter.items()
                             for spin, c in d.items()),
           "caches": sorted(
               (type(o).__name__, fn, repr(k))
               for o in (E.gs, E.gss, E.isr, E.sm, E.h)
               for fn, d in getattr(o, "_function_cache", {}).items()
               for k in d)}
    return hashlib.sha1(json.dumps(sig, default=str).encode()).hexdigest()


def _history_child(dim, label, word, probes, ref, cfg):
    E = Env()
    ctx = Ctx()
    results = []
    if cfg is not None:
        import adcgen
        have = {f: getattr(E.names, f) for f in DEFAULT_NAMES}
        if have != cfg:
            return [{"status": "violation", "finding": "harness-config",
                     "key": json.dumps([dim, label, list(word)]),
                     "outcome": "config-not-applied", "nontrivial": False,
                     "transitions": 0,
                     "detail": f"adcgen from {adcgen.__file__} uses {have}, "
                               f"expected {cfg}"}], None
    for q in word:
        _run_history_call(q, E, ctx)
    refw = None
    if ref is not None:
        refw = ref[tuple(word)] if dim in ("seed", "cfg") else ref[()]
    for q, etype, text in ctx.hist_errors:
        rexc = None if ref is None else ref[()][q]["calls"][0].get("exc")
        if ref is not None and rexc != etype:
            results.append({
                "status": "violation", "finding": f"{dim}-exception:{q}",
                "key": json.dumps([dim, label, list(word), "history:" + q]),
                "outcome": f"{q}|history-call-raises", "nontrivial": True,
                "transitions": len(word),
                "detail": f"dimension={dim} label={label!r} history="
                          f"{list(word)}: the history call {q} raised "
                          f"(pristine process: {rexc or 'returns'})\n{text}"})
    sig = _registry_signature(E)
    for q in probes:
        st, out = _in_child(_probe_child, dim, label, word, q, E, ctx,
                            None if refw is None else refw[q], cfg)
        if st != "ok":
            results.append({
                "status": "violation", "finding": "harness-exception",
                "key": json.dumps([dim, label, list(word), q]),
                "outcome": "harness-exception", "nontrivial": False,
                "transitions": 0, "detail": out})
        elif ref is None:
            results.append(out)
        else:
            results.extend(out)
    return results, sig


def explore(dim, label, word, probes, ref, cfg):
    """all probes after the history `word`; must be called in a pristine
    process (forks, issues no request itself)"""
    st, out = _in_child(_history_child, dim, label, tuple(word), probes, ref,
                        cfg)
    if st != "ok":
        return [{"status": "violation", "finding": "harness-exception",
                 "key": json.dumps([dim, label, list(word)]),
                 "outcome": "harness-exception", "nontrivial": False,
                 "transitions": 0, "detail": out}]
    results, sig = out
    for r in results:
        if isinstance(r, dict) and "status" in r:
            r["sig"] = sig
    return results


# ==========================================================================
# reference (pristine process, default names, seed of this run)
# ==========================================================================
def _ref_word(word):
    out = {}
    for rec in explore("ref", "", word, sorted(REQ), None, None):
        if "q" not in rec:
            raise RuntimeError("reference run failed: " +
                               str(rec.get("detail")))
        out[rec["q"]] = rec
    return out


class Reference:
    """{history word (depth <= 1): {request: record}} observed in pristine
    processes of the interpreter configuration of this run (default tensor
    names, PYTHONHASHSEED of the run); one pickle file per word, built on
    demand.  ref[()] is the history-free reference of the history dimension;
    the seed / config dimensions compare with the record of the *same* word,
    so that they only report what the seed / the names change."""

    def __init__(self, directory, may_build):
        self.dir = directory
        self.may_build = may_build
        self.mem = {}

    def path(self, word):
        return os.path.join(self.dir,
                            "ref_" + ("-".join(word) or "EMPTY") + ".pickle")

    def __getitem__(self, word):
        word = tuple(word)
        if word not in self.mem:
            self.build(word)
            with open(self.path(word), "rb") as f:
                self.mem[word] = pickle.load(f)
        return self.mem[word]

    def build(self, word):
        """must run in a pristine process (only forks)"""
        path = self.path(word)
        if os.path.exists(path):
            return path
        if not self.may_build:
            raise RuntimeError(f"reference record {path} is missing")
        os.makedirs(self.dir, exist_ok=True)
        lock = path + ".lock"
        try:
            os.close(os.open(lock, os.O_CREAT | os.O_EXCL | os.O_WRONLY))
        except FileExistsError:
            # another worker is building it
            t0 = time.time()
            while time.time() - t0 < 900:
                if os.path.exists(path):
                    return path
                time.sleep(0.5)
        rec = _ref_word(tuple(word))
        fd, tmp = tempfile.mkstemp(dir=self.dir)
        with os.fdopen(fd, "wb") as f:
            pickle.dump(rec, f)
        os.replace(tmp, path)
        return path

    def build_all(self, words):
        words = [w for w in words if not os.path.exists(self.path(w))]
        if not words:
            return
        try:
            import multiprocessing as mp
            with mp.get_context("fork").Pool(
                    min(_nproc_cap(), len(words))) as pool:
                pool.map(self.build, words, chunksize=1)
        except (AssertionError, OSError, ValueError):
            for w in words:
                self.build(w)


def _nproc_cap():
    """never more simultaneous explorations than the harness' --nproc"""
    n = min(8, os.cpu_count() or 1)
    if "--nproc" in sys.argv:
        try:
            n = min(n, int(sys.argv[sys.argv.index("--nproc") + 1]))
        except (ValueError, IndexError):
            pass
    return max(1, n)


_REF = None


def _ensure_ref():
    global _REF
    if _REF is None:
        d = os.environ.get("C19_REF_DIR")
        _REF = Reference(d or _SCRATCH, may_build=not d)
    return _REF


# ==========================================================================
# fresh interpreters (hash seed / tensor names)
# ==========================================================================
def _package_copy(cname):
    """scratch copy of the imported adcgen package with the tensor names of
    configuration `cname`; returns the directory to put on PYTHONPATH"""
    import adcgen
    src = os.path.dirname(os.path.abspath(adcgen.__file__))
    root = os.path.join(_SCRATCH, "cfg_" + cname)
    if os.path.isdir(root):
        return root
    os.makedirs(_SCRATCH, exist_ok=True)
    tmp = tempfile.mkdtemp(dir=_SCRATCH)
    shutil.copytree(src, os.path.join(tmp, "adcgen"),
                    ignore=shutil.ignore_patterns("__pycache__"))
    with open(os.path.join(tmp, "adcgen", "tensor_names.json"), "w") as f:
        json.dump(CONFIGS[cname], f, indent=1)
    try:
        os.rename(tmp, root)
    except OSError:
        shutil.rmtree(tmp, ignore_errors=True)
    return root


def _run_engine(dim, label, word, probes, cfg):
    ref = _ensure_ref()
    ref.build(())
    ref.build(word)
    os.makedirs(_SCRATCH, exist_ok=True)
    fd, spec = tempfile.mkstemp(dir=_SCRATCH, suffix=".json")
    out = spec + ".out"
    with os.fdopen(fd, "w") as f:
        json.dump({"dim": dim, "label": label, "word": list(word),
                   "probes": probes, "cfg": cfg, "out": out}, f)
    env = dict(os.environ)
    verif = os.path.dirname(os.path.dirname(os.path.dirname(
        os.path.abspath(__file__))))
    pp = [verif] + [p for p in env.get("PYTHONPATH", "").split(os.pathsep)
                    if p]
    if dim == "cfg":
        pp.insert(0, _package_copy(label))
    else:
        env["PYTHONHASHSEED"] = str(label)
    env["PYTHONPATH"] = os.pathsep.join(pp)
    env["C19_REF_DIR"] = ref.dir
    env["C19_REF_SEED"] = os.environ.get("PYTHONHASHSEED", "0")
    env["ADCGEN_LOG_LEVEL"] = "ERROR"
    env["PYTHONDONTWRITEBYTECODE"] = "1"
    p = subprocess.run([sys.executable, "-m", "vmc.checks.c19", "--engine",
                        spec], env=env, cwd=verif, capture_output=True,
                       text=True)
    try:
        if p.returncode != 0 or not os.path.exists(out):
            return [{"status": "violation", "finding": "harness-exception",
                     "key": json.dumps([dim, label, list(word)]),
                     "outcome": "engine-failed", "nontrivial": False,
                     "transitions": 0,
                     "detail": f"engine exit {p.returncode}\n"
                               f"{p.stdout[-2000:]}\n{p.stderr[-4000:]}"}]
        with open(out) as f:
            return json.load(f)
    finally:
        for fn in (spec, out):
            try:
                os.remove(fn)
            except OSError:
                pass


def _engine_main(specfile):
    with open(specfile) as f:
        spec = json.load(f)
    ref = _ensure_ref()
    cfg = spec["cfg"]
    if spec["dim"] == "cfg":
        import adcgen
        here = os.path.dirname(os.path.abspath(adcgen.__file__))
        if not here.startswith(os.environ["C19_REF_DIR"]):
            raise RuntimeError(f"adcgen imported from {here}, not from the "
                               "scratch copy")
    res = explore(spec["dim"], spec["label"], tuple(spec["word"]),
                  spec["probes"], ref, cfg)
    with open(spec["out"], "w") as f:
        json.dump(res, f, default=str)


# ==========================================================================
# harness interface
# ==========================================================================
def run_case(case):
    dim, label, word = case
    word = tuple(word)
    if dim == "hist":
        ref = _ensure_ref()
        ref[()]     # built / loaded here, in the pristine worker
        return explore(dim, label, word, PROBES + HIST_ONLY_PROBES, ref, None)
    if dim == "seed":
        return _run_engine(dim, label, word, PROBES, None)
    if dim == "cfg":
        return _run_engine(dim, label, word, CFG_PROBES, CONFIGS[label])
    if dim == "self":
        return _run_self(label, word[0])
    raise ValueError(case)


def _run_self(label, n):
    """norm_factor(n) == order-n coefficient of 1/(1 + sum_k S_k) with the
    S_k = overlap(k) requested separately and multiplied as NUMBERS: factors
    of one result that share contracted indices change the value"""
    from adcgen import Operators, GroundState
    from ..model import Space, Model
    from ..evalexpr import evaluate
    from .. import ring
    var, singles = label.split(":")
    gs = GroundState(Operators(var), first_order_singles=bool(int(singles)))
    key = json.dumps(["self", label, n])
    base = {"key": key, "transitions": n + 1, "nontrivial": n >= 4}
    try:
        nf = gs.norm_factor(n)
        ov = {k: gs.overlap(k) for k in range(1, n + 1)}
    except Exception:  # noqa
        return [dict(base, status="violation", outcome="self:exception",
                     finding="self-exception",
                     detail=traceback.format_exc())]
    model = Model(Space(3, 3, False))
    s = [ring.ONE] + [evaluate(ov[k], (), model, expand=True).data.get(
        (), ring.ZERO) for k in range(1, n + 1)]
    # series of 1/(1+x), x = sum_{k>=1} s_k
    inv = [ring.ONE] + [ring.ZERO] * n
    for m in range(1, n + 1):
        acc = ring.ZERO
        for k in range(1, m + 1):
            acc = acc + s[k] * inv[m - k]
        inv[m] = -acc
    got = evaluate(nf, (), model, expand=True).data.get((), ring.ZERO)
    if not ring.equal(got, inv[n]):
        return [dict(base, status="violation", outcome="self:value",
                     finding="factors-of-one-result-share-contracted-indices",
                     detail=f"GroundState({label}).norm_factor({n}) differs "
                     "from the order-n coefficient of 1/(1 + sum_k S_k) "
                     "computed from the separately requested overlaps: "
                     f"{got!r} != {inv[n]!r}\nnorm_factor = {nf}")]
    return [dict(base, status="ok", outcome=f"self:nf{n}:{label}")]


def finalize(tier, results):
    _cleanup()
    dump = os.environ.get("C19_DUMP")
    if dump:
        with open(dump, "w") as f:
            json.dump([{k: r.get(k) for k in ("case", "status", "key",
                                              "outcome", "finding", "detail",
                                              "nontrivial", "wall")}
                       for r in results if r["status"] != "ok"], f, indent=1,
                      default=str)
    return []


def extra_coverage(tier, results):
    sigs = {}
    for r in results:
        if r.get("sig"):
            sigs.setdefault(r["case"][0], set()).add(r["sig"])
    refusals = sum(1 for r in results if "refusal" in r.get("outcome", ""))
    return {"distinct_registry_cache_states_reached":
            {k: len(v) for k, v in sigs.items()},
            "documented_refusals_counted": refusals}


if __name__ == "__main__":
    if len(sys.argv) == 3 and sys.argv[1] == "--engine":
        _engine_main(sys.argv[2])
    else:
        sys.exit("usage: python -m vmc.checks.c19 --engine SPEC")
