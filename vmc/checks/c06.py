"""C06  Tensor objects identify exactly the index tuples related by the
declared symmetry.

(A) every index tuple (with repetition) over a 9-name pool (3 spaces, spins,
    numbered names) for AntiSymmetricTensor / SymmetricTensor / Amplitude x
    bra-ket symmetry 0,+1,-1 x ranks (1,1) (2,2) (2,1) (0,2) (2,0) and (3,3)
    over a smaller pool, NonSymmetricTensor of rank <= 3.
    Oracle: the declared symmetry group enumerated by brute force
    (permutations within upper, within lower, optional bra-ket swap, with
    character chi).  T(g x) = chi(g) T(x) for every g; T(x) = 0 iff some g
    fixes x with chi(g) = -1; the map orbit -> canonical object is injective
    (decided globally in finalize()).
(B) KroneckerDelta on every ordered pair of the pool and its powers.
(C) substitution commutes with construction for every index map with a domain
    of <= 2 names.
(D) declaring assumptions (real, sym_tensors, antisym_tensors) only
    re-canonicalises the named tensors, is idempotent and keeps the value in
    the model that satisfies the assumption.
"""
import itertools

from sympy import S, Mul, Pow

from adcgen import Expr
from adcgen.indices import order_substitutions
from adcgen.sympy_objects import (AntiSymmetricTensor, SymmetricTensor,
                                  Amplitude, NonSymmetricTensor,
                                  KroneckerDelta)

from .. import gen
from ..evalexpr import evaluate, tables_equal
from .common import space_sizes, free_model, fmt_diff, safe_call, has_spin

ID = "C06"
RULE = ("state = (tensor class, bra-ket symmetry, rank, index tuple) resp. "
        "(delta pair, exponent), (tuple, index map), (expression, assumption); "
        "non-trivial = the tuple has a non-trivial orbit or stabiliser under "
        "the declared group (some g x != x or forced zero), a delta between "
        "different indices, a map that moves an index of the tuple")
ASSUMPTIONS = [
    "declared symmetry = permutations within upper / within lower "
    "(antisymmetric or symmetric) and the optional bra-ket swap, as documented"
    " in the class doc-strings",
    "rank <= (3,3); (3,3) only over a 5-name pool",
]

POOL = ["i", "j", "i1", "a", "b", "p", "i_a", "i_b", "a_a"]
POOL33 = ["i", "j", "a", "i_a", "p"]
POOL33T = ["i", "j", "i1", "a", "p", "i_a", "i_b"]
CLASSES = {"anti": AntiSymmetricTensor, "sym": SymmetricTensor,
           "amp": Amplitude}
RANKS = [(1, 1), (2, 2), (2, 1), (0, 2), (2, 0)]
CHUNKSZ = 400


def bounds(tier):
    return {"pool": POOL, "pool_rank33": POOL33 if tier == "quick" else POOL33T,
            "ranks": RANKS + [(3, 3)], "bra_ket": [0, 1, -1]}


def generate(tier):
    out = []
    for cls in CLASSES:
        for bks in (0, 1, -1):
            for nu, nl in RANKS:
                if bks and nu != nl:
                    continue
                tuples = list(itertools.product(POOL, repeat=nu + nl))
                for k in range(0, len(tuples), CHUNKSZ):
                    out.append(("A", cls, bks, nu, nl, k, CHUNKSZ, "full"))
            p33 = POOL33 if tier == "quick" else POOL33T
            n = len(p33) ** 6
            for k in range(0, n, CHUNKSZ):
                out.append(("A", cls, bks, 3, 3, k, CHUNKSZ,
                            "p33q" if tier == "quick" else "p33t"))
    for rank in (1, 2, 3):
        out.append(("N", rank))
    out.append(("B",))
    # (C) substitution: tuples of rank (2,2) over a 5 name pool x maps
    for cls in CLASSES:
        for bks in (0, 1, -1):
            for u0 in _cpools(tier)[0]:
                out.append(("C", cls, bks, tier, u0))
    # (D) assumptions
    for k in range(len(_assumption_inputs())):
        out.append(("D", k))
    return out


def describe(case):
    return {"part": case[0], "params": case[1:]}


# --------------------------------------------------------------------------
def _sign(perm):
    s = 1
    p = list(perm)
    for i in range(len(p)):
        while p[i] != i:
            j = p[i]
            p[i], p[j] = p[j], p[i]
            s = -s
    return s


_GROUPS = {}


def _group(cls, bks, nu, nl):
    key = (cls, bks, nu, nl)
    g = _GROUPS.get(key)
    if g is None:
        g = []
        for pu in itertools.permutations(range(nu)):
            for pl in itertools.permutations(range(nl)):
                chi = 1 if cls == "sym" else _sign(pu) * _sign(pl)
                g.append((pu, pl, False, chi))
                if bks and nu == nl:
                    g.append((pu, pl, True, chi * bks))
        _GROUPS[key] = g
    return g


def _act(g, u, l):
    pu, pl, swap, chi = g
    u2 = tuple(u[k] for k in pu)
    l2 = tuple(l[k] for k in pl)
    if swap:
        u2, l2 = l2, u2
    return u2, l2


def _construct(cls, bks, u, l):
    return CLASSES[cls]("T", gen.syms(u), gen.syms(l), bks)


def _obj_key(o):
    """(sign, structural key) of +-tensor or 0"""
    if o is S.Zero:
        return 0, None
    sign = 1
    if isinstance(o, Mul):
        c, rest = o.as_coeff_Mul()
        assert c in (S.One, S.NegativeOne), o
        sign = int(c)
        o = rest
    return sign, (type(o).__name__, o.name, tuple(str(s) for s in o.upper),
                  tuple(str(s) for s in o.lower), int(o.bra_ket_sym))


def _part_a(case):
    _, cls, bks, nu, nl, start, n, poolid = case
    pool = {"full": POOL, "p33q": POOL33, "p33t": POOL33T}[poolid]
    group = _group(cls, bks, nu, nl)
    results = []
    it = itertools.islice(itertools.product(pool, repeat=nu + nl), start,
                          start + n)
    for tup in it:
        u, l = tup[:nu], tup[nu:]
        key = repr((cls, bks, nu, nl, tup))
        base = {"key": key, "transitions": 1}
        info = f"{CLASSES[cls].__name__}('T', {u}, {l}, {bks})"
        o, err = safe_call(_construct, cls, bks, u, l)
        if err:
            results.append(dict(base, status="violation", outcome="exception",
                                nontrivial=True, finding="constructor-exception",
                                detail=info + " raised " + err))
            continue
        sign, okey = _obj_key(o)
        images = [(_act(g, u, l), g[3]) for g in group]
        forced_zero = any(img == (u, l) and chi == -1 for img, chi in images)
        orbit = min(img for img, _ in images)
        nontrivial = forced_zero or any(img != (u, l) for img, _ in images)
        res = dict(base, nontrivial=nontrivial, orbit=repr((cls, bks, orbit)),
                   obj=repr(okey))
        if forced_zero and sign != 0:
            self_adj = (u == l)
            results.append(dict(res, status="violation", outcome="not-zero",
                                finding=("braket-antisym-fixed-point-not-zero"
                                         if bks == -1 and sorted(u) == sorted(l)
                                         and not _has_rep(u) and not _has_rep(l)
                                         else "forced-zero-not-zero"),
                                detail=info + f" = {o} but the declared "
                                "symmetry forces zero"))
            continue
        if not forced_zero and sign == 0:
            results.append(dict(res, status="violation", outcome="zero",
                                finding="zero-not-forced",
                                detail=info + " = 0 although no symmetry "
                                "element forces zero"))
            continue
        bad = None
        transitions = 1
        # covariance is checked for a generating set of the group only
        # (adjacent transpositions in upper / lower, bra-ket swap): the
        # enumerated tuple set is closed under the group, so covariance under
        # the generators for every tuple implies it for every group element
        for (u2, l2), chi in _gen_images(cls, bks, u, l):
            if (u2, l2) == (u, l):
                continue
            o2 = _construct(cls, bks, u2, l2)
            transitions += 1
            s2, k2 = _obj_key(o2)
            if k2 != okey or s2 != chi * sign:
                bad = (u2, l2, chi, o2)
                break
        res["transitions"] = transitions
        if bad:
            u2, l2, chi, o2 = bad
            results.append(dict(res, status="violation", outcome="covariance",
                                finding="symmetry-related-tuples-differ",
                                detail=info + f" = {o} but the symmetry "
                                f"related tuple ({u2},{l2}) with character "
                                f"{chi} gives {o2}"))
            continue
        results.append(dict(res, status="ok",
                            outcome=f"{cls}:{bks}:sign{sign}"
                            f":{'zero' if forced_zero else 'nz'}"))
    return results


def _gen_images(cls, bks, u, l):
    out = []
    for k in range(len(u) - 1):
        u2 = list(u)
        u2[k], u2[k + 1] = u2[k + 1], u2[k]
        out.append(((tuple(u2), l), 1 if cls == "sym" else -1))
    for k in range(len(l) - 1):
        l2 = list(l)
        l2[k], l2[k + 1] = l2[k + 1], l2[k]
        out.append(((u, tuple(l2)), 1 if cls == "sym" else -1))
    if bks and len(u) == len(l):
        out.append(((l, u), bks))
    return out


def _has_rep(t):
    return len(set(t)) < len(t)


def _part_n(case):
    rank = case[1]
    results = []
    seen = {}
    for tup in itertools.product(POOL, repeat=rank):
        o = NonSymmetricTensor("T", gen.syms(tup))
        key = repr(("nonsym", tup))
        k = (tuple(str(s) for s in o.idx),)
        st = "ok"
        res = {"key": key, "transitions": 1, "nontrivial": rank > 1,
               "orbit": key, "obj": repr(("nonsym", k)), "status": "ok",
               "outcome": "nonsym"}
        if tuple(str(s) for s in o.idx) != tup:
            res.update(status="violation", finding="nonsym-reordered",
                       detail=f"NonSymmetricTensor('T', {tup}) = {o}")
        results.append(res)
    return results


def _part_b(case):
    results = []
    for x, y in itertools.product(POOL, repeat=2):
        sx, sy = gen.sym(x), gen.sym(y)
        for ex in (1, 2, 3):
            key = repr(("delta", x, y, ex))
            base = {"key": key, "transitions": 2, "nontrivial": x != y}
            d = KroneckerDelta(sx, sy) ** ex
            d2 = KroneckerDelta(sy, sx) ** ex
            info = f"KroneckerDelta({x},{y})**{ex} = {d}"
            (spx, pnx), (spy, pny) = (gen.space_of(x), gen.parse_idx(x)[1]), \
                (gen.space_of(y), gen.parse_idx(y)[1])
            if x == y:
                exp = "one"
            elif (spx != "g" and spy != "g" and spx != spy) or \
                    (pnx and pny and pnx != pny):
                exp = "zero"
            else:
                exp = "delta"
            got = "one" if d is S.One else "zero" if d is S.Zero else \
                "delta" if isinstance(d, KroneckerDelta) else "other"
            if got != exp:
                results.append(dict(base, status="violation", outcome=got,
                                    finding="delta-evaluation",
                                    detail=info + f", expected {exp}"))
            elif d != d2:
                results.append(dict(base, status="violation", outcome="asym",
                                    finding="delta-not-symmetric",
                                    detail=info + f" but reversed gives {d2}"))
            elif exp == "delta" and {str(s) for s in d.args} != {x, y}:
                results.append(dict(base, status="violation", outcome="idx",
                                    finding="delta-indices",
                                    detail=info))
            else:
                results.append(dict(base, status="ok", outcome="delta:" + exp))
    return results


def _cpools(tier):
    pool = ["i", "j", "a", "i_a"] if tier == "quick" else \
        ["i", "j", "a", "i_a", "p"]
    imgpool = ["i", "j", "a", "i_a", "p"] if tier == "quick" else POOL33T
    return pool, imgpool


def _part_c(case):
    _, cls, bks, tier, u0 = case
    pool, imgpool = _cpools(tier)
    results = []
    maps = []
    for dom in itertools.chain(itertools.combinations(pool, 1),
                               itertools.combinations(pool, 2)):
        for img in itertools.product(imgpool, repeat=len(dom)):
            maps.append(dict(zip(dom, img)))
    for rest in itertools.product(pool, repeat=3):
        tup = (u0,) + rest
        u, l = tup[:2], tup[2:]
        o = _construct(cls, bks, u, l)
        if o is S.Zero:
            continue
        for f in maps:
            if not any(n in f and f[n] != n for n in tup):
                continue
            key = repr(("subs", cls, bks, tup, sorted(f.items())))
            base = {"key": key, "transitions": 2, "nontrivial": True,
                    "obj": None}
            fu = tuple(f.get(n, n) for n in u)
            fl = tuple(f.get(n, n) for n in l)
            expected = _construct(cls, bks, fu, fl)
            sub = order_substitutions({gen.sym(k): gen.sym(v)
                                       for k, v in f.items()})
            got, err = safe_call(o.subs, sub)
            info = (f"{o}.subs(order_substitutions({f})) ")
            if err:
                results.append(dict(base, status="violation",
                                    outcome="exception",
                                    finding="subs-exception",
                                    detail=info + err))
            elif got != expected:
                results.append(dict(base, status="violation", outcome="subs",
                                    finding="subs-does-not-commute",
                                    detail=info + f"= {got}, construction from"
                                    f" the substituted tuple gives {expected}"))
            else:
                results.append(dict(base, status="ok", outcome="subs-ok"))
    return results


def _assumption_inputs():
    i, j, k, l, a, b, c, d, p, q = gen.syms("ijklabcdpq")
    A, Am = AntiSymmetricTensor, Amplitude
    ex = [
        (A("d", (i,), (j,)), (i, j)),
        (A("d", (j,), (i,)), (i, j)),
        (A("d", (a,), (i,)), (i, a)),
        (A("d", (i,), (a,)) * A("x", (a,), (i,)), ()),
        (A("d", (i, j), (k, l)) * A("x", (k, l), (i, j)), ()),
        (A("d", (k, l), (i, j)) + A("d", (i, j), (k, l)), (i, j, k, l)),
        (A("V", (a, b), (i, j)) * Am("t2cc", (a, b), (i, j)), ()),
        (A("V", (i, j), (a, b)) * Am("t2", (a, b), (i, j))
         + A("V", (a, b), (i, j)) * Am("t2cc", (a, b), (i, j)), ()),
        (A("f", (a,), (i,)) * Am("t1cc", (a,), (i,))
         + A("f", (i,), (a,)) * Am("t1", (a,), (i,)), ()),
        (A("f", (p,), (q,)) * A("d", (q,), (p,)), ()),
        (A("d", (p,), (q,)) * A("x", (q,), (p,)) * NonSymmetricTensor("z", (p,)),
         ()),
        (SymmetricTensor("s", (i, j), (a, b)) * A("d", (a,), (i,)), (j, b)),
        (A("d", (i,), (j,)) ** 2, ()),
        (A("V", (p, q), (i, j)) * A("V", (i, j), (p, q)), ()),
        # powers of tensors in non-canonical orientation (the bra-ket swap of
        # an antisymmetric declaration brings a sign: (-T)^n)
        (A("d", (a,), (i,)) ** 2, ()),
        (A("d", (a,), (i,)) ** 3 * A("x", (i,), (a,)), ()),
        (A("d", (a, b), (i, j)) ** 2, ()),
        (A("d", (a,), (i,)) ** 2 * A("x", (a, b), (i, j)) ** 2, (j, b)),
        (A("d", (a, b), (i, j)) ** 4, (i, j, a, b)),
        (Am("t2cc", (a, b), (i, j)) ** 2 * A("V", (a, b), (i, j)) ** 2, ()),
    ]
    return ex


def _part_d(case):
    expr, target = _assumption_inputs()[case[1]]
    results = []
    names = sorted({o.name for o in expr.atoms(AntiSymmetricTensor)})
    opts = [("real", {"real": True})]
    for n in names:
        opts.append((f"sym:{n}", {"sym_tensors": [n]}))
        opts.append((f"antisym:{n}", {"antisym_tensors": [n]}))
    idxnames = sorted({str(s) for s in expr.atoms(gen.sym("i").__class__)})
    no, nv = space_sizes([idxnames])
    for label, kw in opts:
        key = repr(("assume", case[1], label))
        base = {"key": key, "transitions": 3, "nontrivial": True}
        info = f"Expr({expr}, {kw}) "
        e1, err = safe_call(Expr, expr, **kw)
        if err:
            results.append(dict(base, status="violation", outcome="exception",
                                finding="assumption-exception",
                                detail=info + err))
            continue
        # idempotent: wrapping the result again with the same assumption, and
        # calling the setter again
        e2 = Expr(e1.sympy, **kw)
        e3 = Expr(expr)
        if "real" in kw:
            e3.make_real()
            e3.make_real()
        elif "sym_tensors" in kw:
            e3.set_sym_tensors(kw["sym_tensors"])
            e3.set_sym_tensors(kw["sym_tensors"])
        else:
            e3.set_antisym_tensors(kw["antisym_tensors"])
            e3.set_antisym_tensors(kw["antisym_tensors"])
        if e2.sympy != e1.sympy or e3.sympy != e1.sympy:
            results.append(dict(base, status="violation", outcome="idempotent",
                                finding="assumption-not-idempotent",
                                detail=info + f"= {e1.sympy}; applied again: "
                                f"{e2.sympy}; via setter twice: {e3.sympy}"))
            continue
        # value unchanged in the model satisfying the assumption; unaffected
        # names untouched
        over, ren = {}, {}
        if "real" in kw:
            over = {"V": 1, "f": 1}
            ren = {"t2cc": "t2", "t1cc": "t1"}
            affected = {"V", "f", "t1cc", "t2cc", "t1", "t2"}
        elif "sym_tensors" in kw:
            over = {kw["sym_tensors"][0]: 1}
            affected = set(kw["sym_tensors"])
        else:
            over = {kw["antisym_tensors"][0]: -1}
            affected = set(kw["antisym_tensors"])
        model = free_model(no, nv, False, bks_override=over, rename=ren,
                           tag="c06" + label)
        t_in = evaluate(expr, target, model)
        t_out = evaluate(e1.sympy, target, model)
        diff = tables_equal(t_in, t_out)
        if diff is not None:
            results.append(dict(base, status="violation", outcome="value",
                                finding="assumption-changes-value",
                                detail=info + f"= {e1.sympy}: value changed in "
                                "the model satisfying the assumption "
                                + fmt_diff(diff)))
            continue
        before = {o for o in expr.atoms(AntiSymmetricTensor)
                  if o.name not in affected}
        after = {o for o in e1.sympy.atoms(AntiSymmetricTensor)
                 if o.name not in affected}
        if before != after:
            results.append(dict(base, status="violation", outcome="untouched",
                                finding="assumption-touches-other-tensors",
                                detail=info + f"= {e1.sympy}"))
            continue
        results.append(dict(base, status="ok", outcome="assume:" + label.split(":")[0]))
    return results


def _aggregate(case, results):
    """compress the ok-results of one chunk into a single aggregate record
    (violations are kept individually)"""
    out = [r for r in results if r["status"] != "ok"]
    oks = [r for r in results if r["status"] == "ok"]
    outcomes = {}
    for r in oks:
        outcomes[r["outcome"]] = outcomes.get(r["outcome"], 0) + 1
    pairs = sorted({(r["obj"], r["orbit"]) for r in oks if r.get("obj")})
    out.append({"status": "ok", "key": "agg:" + repr(case), "nontrivial": True,
                "outcome": "aggregate", "transitions": 0,
                "agg": {"states": len(oks),
                        "nontrivial": sum(1 for r in oks if r["nontrivial"]),
                        "transitions": sum(r["transitions"] for r in results),
                        "outcomes": outcomes},
                "pairs": pairs})
    return out


def run_case(case):
    part = case[0]
    if part == "A":
        return _aggregate(case, _part_a(case))
    if part == "C":
        return _aggregate(case, _part_c(case))
    if part == "N":
        return _part_n(case)
    if part == "B":
        return _part_b(case)
    if part == "C":
        return _part_c(case)
    return _part_d(case)


def finalize(tier, results):
    """global injectivity: a canonical object must belong to one orbit only"""
    owner = {}
    extra = []
    flat = []
    for r in results:
        if r["status"] != "ok":
            continue
        if r.get("pairs"):
            flat.extend((ob, orb, r) for ob, orb in r["pairs"])
        elif r.get("obj"):
            flat.append((r["obj"], r.get("orbit"), r))
    for ob, orb, r in flat:
        if ob is None or ob == "None":
            continue
        prev = owner.setdefault(ob, orb)
        if prev != orb:
            extra.append({"status": "violation", "finding": "orbits-identified",
                          "case": r["case"], "key": r["key"],
                          "detail": f"canonical object {ob} is produced by two "
                          f"tuples that are not related by the declared "
                          f"symmetry: orbit {prev} and orbit {orb}"})
    return extra
