"""C17  Generated contraction code evaluates to the expression it came from.

Explored: expressions = single grammar terms (the C16 families: single
tensors, traces, outer products, nested and hyper-contractions, powers,
deltas) x prefactors (integers, 1/2, 1/4, 1/3, -3/2, sqrt2, sqrt6/2, symbol) x
every ordering of the target string, and sums  T + chi*P(T)  related by
target permutations (so that 'Apply (1 - P_ij ...)' is exercised) x ',' splits
x bra-ket symmetry x (anti)symmetric result tensor; both backends; optimised
and unoptimised scheme.
Oracle: an own tokenizer / parser / interpreter (vmc/codeinterp.py) of the
emitted text - prefactors, block names, index strings, nesting, permutation
operators - on formal tensor values; the result must equal the value table of
the expression with the axes in the requested order.  Refusals: only
NotImplementedError and never on the supported core as classified by an
independent predicate.
"""
import itertools

from sympy import S, Rational, sqrt, Symbol, Mul, Pow, Add

from adcgen import Expr, generate_code
from adcgen.indices import Index
from adcgen.sympy_objects import (AntiSymmetricTensor, Amplitude,
                                  NonSymmetricTensor, SymmetricTensor,
                                  KroneckerDelta)

from .. import gen, ring
from ..codeinterp import Env, run_program, CodeError
from ..evalexpr import evaluate, Unsupported
from ..ring import ONE, ZERO, Poly
from .common import space_sizes, free_model, safe_call, names_of
from . import c16

ID = "C17"
RULE = ("state = (expression, target string incl. ',' split, bra-ket "
        "symmetry, result-tensor kind, backend, optimised?); non-trivial = "
        "the emitted program contains at least one contraction call or a "
        "permutation operator")
ASSUMPTIONS = [
    "index names are single letters without spin (the emitted index strings "
    "only carry the names; the library warns about mixed spins)",
    "libtensor results are matched by index label, einsum results by axis "
    "order",
    "tensor-name translation tables re-typed in vmc/checks/c17.py",
]

PREFS = [S.One, S(-2), Rational(1, 2), Rational(1, 4), Rational(1, 3),
         Rational(-3, 2), sqrt(2), sqrt(6) / 2, Symbol("c"),
         -Symbol("c") / 2]


def bounds(tier):
    return {"term_families": "as C16", "prefactors": [str(p) for p in PREFS],
            "backends": ["einsum", "libtensor"]}


def generate(tier):
    out = []
    descs = [c[1] for c in c16.generate(tier)]
    for k, d in enumerate(descs):
        names = names_of(d)
        if any("_" in n for n in names):
            continue
        if len(gen.einstein_target(d)) > 4:
            continue
        out.append(("t", d, k % len(PREFS)))
    for k in range(len(PERM_GENS)):
        out.append(("p", k))
    for k in range(len(PREFS)):
        out.append(("pref", k))
    out.append(("collide", 0))
    return out


def describe(case):
    if case[0] == "t":
        return {"term": str(gen.build_term(case[1])), "pref": str(PREFS[case[2]])}
    return {"part": case[0], "k": case[1]}


# ------------------------------------------------------------- name tables
def _adc_n(spaces):
    no, nv = spaces.count("o"), spaces.count("v")
    return no if no == nv else min(no, nv) + 1


def _emitted_name(obj, backend):
    """(name, rank, axes-space string, value function) for one sympy object,
    re-typed conventions"""
    if isinstance(obj, KroneckerDelta):
        idx = tuple(obj.args)
        space = "".join(s.space[0] for s in idx)
        return (f"d_{space}", 2, space,
                lambda m, o: ONE if o[0] == o[1] else ZERO)
    if isinstance(obj, NonSymmetricTensor):
        idx = tuple(obj.idx)
        space = "".join(s.space[0] for s in idx)
        nm = obj.name
        return (f"{nm}_{space}", len(idx), space,
                lambda m, o, nm=nm: m.value("nonsym", nm, 0, tuple(o), ()))
    nm = obj.name
    bks = int(obj.bra_ket_sym)
    nu, nl = len(obj.upper), len(obj.lower)
    if isinstance(obj, Amplitude):
        idx = tuple(obj.lower) + tuple(obj.upper)
        space = "".join(s.space[0] for s in idx)

        def val(m, o, nm=nm, bks=bks, nl=nl):
            return m.value("amp", nm, bks, tuple(o[nl:]), tuple(o[:nl]))
        if nm in ("X", "Y"):
            name = f"u{'l' if nm == 'X' else 'r'}{_adc_n(space)}"
        elif nm[0] == "t" and nm[1:].replace("c", "").isdigit():
            name = f"t{nu}_{nm[1:]}"
        else:
            name = f"{nm}_{space}"
        return (name, nu + nl, space, val)
    kind = "sym" if isinstance(obj, SymmetricTensor) else "anti"
    idx = tuple(obj.upper) + tuple(obj.lower)
    space = "".join(s.space[0] for s in idx)

    def val(m, o, nm=nm, bks=bks, nu=nu, kind=kind):
        return m.value(kind, nm, bks, tuple(o[:nu]), tuple(o[nu:]))
    if nm == "V":
        name = f"hf.{space}" if backend == "einsum" else f"i_{space}"
    elif nm == "f" and backend == "einsum":
        name = f"hf.f{space}"
    else:
        name = f"{nm}_{space}"
    return (name, nu + nl, space, val)


def _name_table(expr_sympy, backend):
    """emitted (name) -> spec, collision list"""
    table = {}
    owners = {}
    collisions = []
    objs = set(expr_sympy.atoms(KroneckerDelta)) | \
        set(expr_sympy.atoms(NonSymmetricTensor)) | \
        set(expr_sympy.atoms(AntiSymmetricTensor))
    for o in objs:
        name, rank, space, val = _emitted_name(o, backend)
        ident = (type(o).__name__, getattr(o, "name", "delta"))
        prev = owners.setdefault(name, (ident, rank))
        if prev != (ident, rank):
            collisions.append((name, prev, (ident, rank)))
        table[name] = {"rank": rank, "space": space, "value": val}
    return table, collisions


# ---------------------------------------------------------------- inputs
def _V(*x):
    s = gen.syms(x)
    return AntiSymmetricTensor("V", s[:2], s[2:], 1)


def _Y(i, a):
    return Amplitude("Y", (gen.sym(a),), (gen.sym(i),))


def _t2(*x):
    s = gen.syms(x)
    return Amplitude("t2", s[2:], s[:2])


def _ns(name, *x):
    return NonSymmetricTensor(name, gen.syms(x))


PERM_GENS = [
    ("YY", lambda: _Y("i", "a") * _Y("j", "b"), "ijab",
     [("ij,ab", 0), ("ia,jb", 0), ("ia,jb", 1), ("ijab", 0)]),
    ("Vt", lambda: _V("i", "k", "a", "c") * _t2("j", "k", "b", "c"), "ijab",
     [("ij,ab", 0), ("ia,jb", 1), ("ia,jb", -1)]),
    ("fX", lambda: AntiSymmetricTensor("f", (gen.sym("i"),), (gen.sym("k"),), 1)
     * Amplitude("X", gen.syms("ab"), gen.syms("jk")), "ijab",
     [("ij,ab", 0), ("ijab", 0)]),
    ("xyz", lambda: _ns("x", "i") * _ns("y", "j") * _ns("z", "k"), "ijk",
     [("ijk", 0)]),
    ("Vw", lambda: _V("i", "j", "a", "c") * _ns("w", "c", "b"), "ijab",
     [("ij,ab", 0)]),
    ("xx", lambda: _ns("x", "i", "a") * _ns("x", "j", "b"), "ijab",
     [("ia,jb", 1), ("ij,ab", 0)]),
]


def _supported(expr_sympy, backend):
    """independent predicate: the supported core (tensors / deltas with
    positive exponents, rational or sqrt prefactors, symbols; no partial
    trace for libtensor is checked separately)"""
    for term in (expr_sympy.args if isinstance(expr_sympy, Add)
                 else (expr_sympy,)):
        for f in (term.args if isinstance(term, Mul) else (term,)):
            if f.is_number:
                continue
            b, ex = (f.args if isinstance(f, Pow) else (f, S.One))
            if b.is_number and ex == Rational(1, 2):
                continue
            if isinstance(b, Symbol) and not isinstance(b, Index):
                continue
            if isinstance(b, (KroneckerDelta, NonSymmetricTensor,
                              AntiSymmetricTensor)) and ex.is_Integer \
                    and ex > 0:
                continue
            return False
    return True


def _has_partial_trace(expr_sympy, target):
    """a repeated contracted index on a single object together with other
    (non summed) indices on that object"""
    tset = set(target)
    objs = set(expr_sympy.atoms(NonSymmetricTensor)) | \
        set(expr_sympy.atoms(AntiSymmetricTensor))
    for o in objs:
        idx = list(o.idx)
        for s in set(idx):
            if idx.count(s) > 1 and s not in tset:
                return True
    return False


def _check(key, expr_sympy, target_names, tstring, bks, anti, backend, opt,
           nontrivial=True, spin=None):
    """spin: optional dict index name -> 'a' | 'b'.  The library is then
    called on the spin-labelled expression with the matching target_spin;
    the emitted program carries names only, so it is interpreted - and the
    reference value is computed - on the spin-free expression."""
    base = {"key": key, "transitions": 1, "nontrivial": nontrivial}
    target = gen.syms(target_names)
    e0 = Expr(expr_sympy)
    tspin = None
    if spin:
        rep = {gen.sym(n): gen.sym(f"{n}_{sp}") for n, sp in spin.items()}
        e0 = Expr(expr_sympy.xreplace(rep))
        tspin = "".join("," if c == "," else spin[c] for c in tstring)
    info = (f"generate_code({expr_sympy}, target_indices={tstring!r}, "
            f"bra_ket_sym={bks}, antisymmetric_result_tensor={anti}, "
            f"backend={backend!r}, optimize_contraction_scheme={opt})\n")
    code, err = safe_call(generate_code, e0, tstring, tspin, bks, anti,
                          backend, None, None, opt)
    if spin:
        info += f"(spin-labelled input {e0.sympy}, target_spin={tspin!r})\n"
    if err:
        head = err.split("\n")[0]
        if head.startswith("NotImplementedError"):
            if _supported(expr_sympy, backend) and not (
                    backend == "libtensor" and
                    _has_partial_trace(expr_sympy, target)) and \
                    "Libtensor can not handle a partial trace" not in head and \
                    "No target and contracted indices" not in head:
                return dict(base, status="violation", outcome="refused-core",
                            finding=_refusal_class(head),
                            detail=info + "refused on the supported core: "
                            + head)
            return dict(base, status="ok", nontrivial=False,
                        outcome="refused:NotImplementedError")
        if head.startswith("Inputerror"):
            return dict(base, status="ok", nontrivial=False,
                        outcome="refused:Inputerror")
        finding = "generate_code-exception"
        if "sequence item 0: expected str instance, NoneType" in head:
            finding = "symbol-prefactor-TypeError"
        return dict(base, status="violation", outcome="exception",
                    finding=finding, detail=info + err)
    info += "emitted:\n" + code + "\n"
    names = {str(s) for s in expr_sympy.atoms(Index)} | set(target_names)
    no, nv = space_sizes([names])
    model = free_model(no, nv, False, tag="c17")
    table, collisions = _name_table(expr_sympy, backend)
    if collisions:
        return dict(base, status="violation", outcome="name-collision",
                    finding="emitted-name-collision",
                    detail=info + f"different objects share an emitted name: "
                    f"{collisions}")
    env = Env(model, table, symbols={"c"})
    letters = [gen.parse_idx(n)[0] for n in target_names]
    try:
        got = run_program(code, env, letters, ordered=(backend == "einsum"))
    except CodeError as e:
        return dict(base, status="violation", outcome="not-interpretable",
                    finding="emitted-program-malformed",
                    detail=info + f"interpreter: {e}")
    ref = evaluate(expr_sympy, target, model)
    for k in set(got) | set(ref.data):
        a = got.get(k, Poly())
        b = ref.data.get(k, Poly())
        if not ring.equal(a, b):
            return dict(base, status="violation", outcome="value",
                        finding="emitted-program-wrong-value",
                        detail=info + f"at target assignment {k}: program "
                        f"gives {a!r}, expression is {b!r}")
    ncalls = code.count("einsum(") + code.count("contract(") + \
        code.count("dot_product(")
    nperm = code.count("P_")
    return dict(base, status="ok",
                outcome=f"{backend}:{'opt' if opt else 'unopt'}:"
                f"calls{min(ncalls, 4)}:perm{min(nperm, 3)}",
                nontrivial=bool(ncalls or nperm))


def _refusal_class(head):
    if "Formatting of prefactor" in head:
        return "prefactor-not-formattable"
    return "refused-on-supported-core"


def run_case(case):
    results = []
    if case[0] == "t":
        _, desc, pk = case
        term = PREFS[pk] * gen.build_term(desc)
        ein = gen.sympy_einstein_target(term)
        if any(len(n) != 1 for n in ein):
            return {"status": "skip", "key": repr(case), "outcome": "names",
                    "nontrivial": False, "transitions": 0}
        orders = list(itertools.permutations(ein)) if len(ein) <= 3 else \
            [tuple(ein), tuple(reversed(ein)),
             (ein[1], ein[0]) + tuple(ein[2:]), (ein[0], ein[2], ein[1],
                                                 ein[3])]
        for tn in orders:
            tstring = "".join(tn)
            for backend in ("einsum", "libtensor"):
                for opt in (True, False):
                    key = repr((gen.canonical_key(desc, ()), pk, tn, backend,
                                opt))
                    results.append(_check(key, term, tn, tstring, 0, True,
                                          backend, opt))
        # spin-labelled variant (target_spin given): every fourth term
        names = sorted({str(x) for x in term.atoms(Index)}, key=gen.name_key)
        if len(ein) >= 2 and all(len(n) == 1 for n in names) and \
                len(repr(desc)) % 4 == 0:
            # all alpha: mixed spins would hit spin-forbidden tensor blocks
            # (f, V, t amplitudes), which the library drops
            spin = {n: "a" for n in names}
            for tn in orders[:3]:
                tstring = "".join(tn)
                for backend in ("einsum", "libtensor"):
                    for opt in (True, False):
                        key = repr((gen.canonical_key(desc, ()), pk, tn,
                                    backend, opt, "spin"))
                        results.append(_check(key, term, tn, tstring, 0, True,
                                              backend, opt, spin=spin))
        return results
    if case[0] == "p":
        gid, builder, tstr, options = PERM_GENS[case[1]]
        T = builder()
        tn = tuple(tstr)
        occ = [n for n in tn if gen.space_of(n) == "o"]
        virt = [n for n in tn if gen.space_of(n) == "v"]
        group = []
        for po in itertools.permutations(occ):
            for pv in itertools.permutations(virt):
                m = dict(zip(occ, po))
                m.update(zip(virt, pv))
                if any(k != v for k, v in m.items()):
                    group.append(m)
        subsets = [()] + [(g,) for g in range(len(group))]
        subsets += list(itertools.combinations(range(len(group)), 2))[:6]
        if len(group) <= 5:
            subsets.append(tuple(range(len(group))))
        for sub in subsets:
            for sg in (1, -1):
                expr = T
                for gi in sub:
                    m = {gen.sym(k): gen.sym(v) for k, v in group[gi].items()}
                    expr = expr + sg * T.subs(m, simultaneous=True)
                if expr is S.Zero:
                    continue
                expr = Rational(1, 2) * expr
                for tstring, bks in options:
                    for anti in (True, False):
                        for backend in ("einsum", "libtensor"):
                            key = repr(("p", gid, sub, sg, tstring, bks, anti,
                                        backend))
                            results.append(_check(
                                key, expr, tuple(tstring.replace(",", "")),
                                tstring, bks, anti, backend, True))
        return results
    if case[0] == "collide":
        # operator matrix d_ij (configured name 'd') next to a Kronecker delta
        i, j, k = gen.syms("ijk")
        T = AntiSymmetricTensor("d", (i,), (j,)) * KroneckerDelta(j, k) * \
            _ns("x", "k")
        for backend in ("einsum", "libtensor"):
            results.append(_check(repr(("collide", backend)), T, ("i",), "i",
                                  0, True, backend, True))
        return results
    # prefactor zoo on a fixed two-tensor term and on a pure number term
    pk = case[1]
    T = PREFS[pk] * _V("i", "j", "a", "b") * _Y("j", "b")
    for backend in ("einsum", "libtensor"):
        for opt in (True, False):
            key = repr(("pref", pk, backend, opt))
            results.append(_check(key, T, ("i", "a"), "ia", 0, True, backend,
                                  opt))
        key = repr(("prefsum", pk, backend))
        results.append(_check(key, T + 3 * _ns("x", "i", "a"), ("i", "a"),
                              "ia", 0, True, backend, True))
    return results
