"""C11  Expanding, factoring and reducing intermediates are mutually
consistent.

Explored (every element of each family, simplest first):

 def    every registered intermediate: the once-expanded definition, the fully
        expanded definition and the tensor itself have one value; the
        definition has the declared symmetry of its tensor.
 syn1   one registered-intermediate tensor at an index tuple (default,
        permuted, renamed onto the names the definitions use internally,
        repeated indices) x remainder (none / free tensor over all, half, one
        of the indices / antisymmetric free tensor / ERI) with explicit target
        sets.  Operations: expand_intermediates(fully / once / once then
        fully), reduce_expr, factor_intermediates(base, names, max_order) for
        base in {reduce_expr result, expanded+expand()} and names in {every
        ordered subset of the intermediates the definition is built from,
        distractors, the type strings, None}, re-expansion of every factored
        result.
 syn2   products of two intermediate tensors (every index pattern up to
        renaming incl. shared and identical tuples = powers) - same operations.
 pert   the expanded definition (times remainder) with every single term
        rescaled (2, -1, 1/2) or dropped, every pair of terms rescaled /
        dropped (thorough), plus a foreign term: factor_intermediates has to
        complete / refuse the intermediate without changing the value (mixed
        prefactor completion, incomplete variants).
 deriv  derivation outputs (MP energy, one-particle density, secular matrix
        blocks) through the documented pipeline  real -> substitute_contracted
        -> simplify -> (by_delta_types, diagonalize_fock) -> reduce_expr ->
        factor_intermediates(types, max_order).
 re     remainder x registered RE residual: factoring the residual
        (placeholder 'Zero') must preserve the value in the model whose
        first-order doubles satisfy the RE amplitude equations.

Oracle: value tables of input and output for the explicit target tuple of the
input (reference interpreter vmc/evalexpr.py) in the model vmc/c11_model.py:
canonical Fock matrix, formal real antisymmetrised integrals, formal orbital
energies, every intermediate tensor valued by its registered definition
(evaluated once at the default indices).  Exact equality of rational
functions.
"""
import itertools
import signal
import time
import traceback

from sympy import S, Add, Mul, Pow, Rational, Symbol

from adcgen import Expr, Intermediates, factor_intermediates, reduce_expr
from adcgen.indices import Index, get_symbols
from adcgen.misc import Inputerror
from adcgen.sympy_objects import (AntiSymmetricTensor, NonSymmetricTensor,
                                  SymmetricTensor, Amplitude, KroneckerDelta)

from .. import gen, ring
from ..c11_model import (DefinedModel, declared_symmetry_defects, NO_TABLE,
                         ONCE_EXPANDED_DEFS)
from ..evalexpr import evaluate, tables_equal, Table, Unsupported, kind_of
from .common import fmt_diff

ID = "C11"
FRESH_FORK = True
CASE_TIMEOUT = 1200
OP_TIMEOUT = 240
RULE = ("state = (input expression with explicit targets, operation with its "
        "arguments); one transition = one call of expand_intermediates / "
        "reduce_expr / factor_intermediates on the real code; non-trivial = "
        "the input contains an intermediate tensor with a non-vanishing "
        "definition (expand, reduce) resp. factor_intermediates changed the "
        "expression or was offered a (perturbed) complete definition")
ASSUMPTIONS = [
    "real orbital basis, canonical Fock matrix (f = diag(e)); orbital space "
    "(2 occ, 2 virt) [quick], additionally (3,3) for the second-order "
    "synthetic inputs at the default / renamed / interleaved index tuple "
    "[thorough]; triples and quadruples amplitudes vanish identically in "
    "(2,2), so t3_2 / t4_2 and the triples part of t1_3, t2_3, p0_3_ov are "
    "only exercised structurally there",
    "the table of an intermediate is its registered definition evaluated at "
    "the default indices (third order: the once-expanded definition with the "
    "lower-order tables); the 'def' family compares once-expanded, fully "
    "expanded and tensor value and the declared tensor symmetry",
    "inputs handed to factor_intermediates are expanded sums of products (the "
    "documented pipeline: reduce_expr output or Expr.expand())",
    "factoring the RE residuals (placeholder tensor 'Zero' := 0) preserves "
    "the value only where the residual vanishes: explored in the 're' family "
    "in the (2,2) model whose first-order doubles solve the registered "
    "first-order RE residual equation (block diagonal formal Fock matrix); "
    "elsewhere 're_residual' is requested only through types_or_names=None",
    "factor_intermediates requests with max_order >= 3 / without max_order "
    "through None are not made (preparing the third-order intermediates for "
    "factorisation does not finish within minutes)",
]

_AV = None


def _av():
    global _AV
    if _AV is None:
        _AV = Intermediates().available
    return _AV


# --------------------------------------------------------------------------
# models
# --------------------------------------------------------------------------
_MODELS = {}


def _model(no, nv, fock="canonical"):
    key = (no, nv, fock)
    m = _MODELS.get(key)
    if m is None:
        m = DefinedModel(no, nv, fock)
        _MODELS[key] = m
    return m


def _warm():
    """bring the process into a defined state: the same sequence of adcgen
    calls precedes every case (in the parent before forking, or - for
    replays - in the worker itself)"""
    m = _model(2, 2)
    for name in ("t2_1", "t1_2", "t2_2"):
        m.table(name)


# --------------------------------------------------------------------------
# helpers
# --------------------------------------------------------------------------
class OpTimeout(Exception):
    pass


def _call(fn, seconds=OP_TIMEOUT):
    """(result, error text or None, timed out?) with an inner time limit that
    leaves the harness' own alarm intact"""
    old = signal.getsignal(signal.SIGALRM)
    remaining = signal.alarm(0)
    t0 = time.time()

    def handler(signum, frame):
        raise OpTimeout()
    signal.signal(signal.SIGALRM, handler)
    signal.alarm(int(seconds))
    try:
        return fn(), None, False
    except OpTimeout:
        return None, None, True
    except MemoryError:
        raise       # per-worker memory limit: the harness reports a cap
    except Exception as e:  # noqa
        return None, (f"{type(e).__name__}: {e}\n"
                      f"{traceback.format_exc(limit=8)}"), False
    finally:
        signal.alarm(0)
        signal.signal(signal.SIGALRM, old)
        if remaining:
            signal.alarm(max(1, remaining - int(time.time() - t0)))


def _distribute(expr):
    """distribute products over sums in the numerator only (sympy's expand()
    also multiplies out orbital-energy denominators); value preserving"""
    expr = S(expr)
    if isinstance(expr, Add):
        return Add(*[_distribute(a) for a in expr.args])
    if isinstance(expr, Pow):
        b, ex = expr.args
        if isinstance(b, Add) and ex.is_Integer and 0 < ex <= 4 and \
                not _only_energies(b):
            return _distribute(Mul(*[b] * int(ex), evaluate=False))
        return expr
    if not isinstance(expr, Mul):
        return expr
    sums, rest = [], []
    for a in expr.args:
        if isinstance(a, Add) and not _only_energies(a):
            sums.append([_distribute(x) for x in a.args])
        elif isinstance(a, Pow) and isinstance(a.args[0], Add) and \
                a.args[1].is_Integer and 0 < a.args[1] <= 4 and \
                not _only_energies(a.args[0]):
            for _ in range(int(a.args[1])):
                sums.append([_distribute(x) for x in a.args[0].args])
        elif isinstance(a, Mul):
            d = _distribute(a)
            if isinstance(d, Add):
                sums.append(list(d.args))
            else:
                rest.append(d)
        else:
            rest.append(a)
    if not sums:
        return expr
    # nested sums inside the addends
    flat = []
    for lst in sums:
        cur = []
        for x in lst:
            cur.extend(x.args if isinstance(x, Add) else [x])
        flat.append(cur)
    base = Mul(*rest)
    return Add(*[base * Mul(*combo) for combo in itertools.product(*flat)])


def _only_energies(e):
    """is e a polynomial in orbital energies only?"""
    for t in e.atoms(AntiSymmetricTensor, NonSymmetricTensor, KroneckerDelta):
        if not (isinstance(t, NonSymmetricTensor) and t.name == "e"):
            return False
    return True


def _terms(sym):
    sym = S(sym)
    return list(sym.args) if isinstance(sym, Add) else \
        ([] if sym is S.Zero else [sym])


def _tensor_names(sym):
    out = {}
    for t in S(sym).atoms(AntiSymmetricTensor, NonSymmetricTensor):
        if isinstance(t, NonSymmetricTensor):
            key = f"{t.name}{len(t.idx)}"
        else:
            key = f"{t.name}{len(t.upper)}{len(t.lower)}"
        out[key] = out.get(key, 0) + 1
    return out


def _registered_in(sym, model):
    """registered intermediate names whose tensors occur in sym (own
    classification on the slot spaces)"""
    out = set()
    for t in S(sym).atoms(AntiSymmetricTensor, NonSymmetricTensor):
        k = kind_of(t)
        if k == "nonsym":
            us, ls = tuple(s.space[0] for s in t.idx), ()
        else:
            us = tuple(s.space[0] for s in t.upper)
            ls = tuple(s.space[0] for s in t.lower)
        if any(x == "g" for x in us + ls):
            continue
        n = model.is_registered(k, t.name, us, ls)
        if n:
            out.add(n)
    return out


def _shape(sym, model):
    sym = S(sym)
    regs = sorted(_registered_in(sym, model))
    return f"{len(_terms(sym))}t[{','.join(regs)}]"


def _eval(sym, target, model):
    return evaluate(_distribute(getattr(sym, "sympy", sym)), target, model)


class Ref:
    """reference value of an input in every model of the case"""

    def __init__(self, sym, target, models):
        self.sym = S(getattr(sym, "sympy", sym))
        self.target = tuple(target)
        self.models = models
        self.tables = [_eval(self.sym, self.target, m) for m in models]
        self.nonzero = any(t.data for t in self.tables)

    def compare(self, out_sym):
        """None or text describing the first difference"""
        for m, ref in zip(self.models, self.tables):
            got = _eval(out_sym, self.target, m)
            d = tables_equal(ref, got)
            if d is not None:
                return f"model {m.space}: " + fmt_diff(d)
        return None


def _verdict(base, op, ref, out, info, nontrivial, results, model,
             expect_targets=True, cls="", opclass=None):
    """append the result dict of one transition; returns True if ok"""
    opclass = opclass or op
    sym = S(getattr(out, "sympy", out))
    info = info + f"result: {str(sym)[:1500]}\n"
    try:
        diff = ref.compare(sym)
    except (Unsupported, NotImplementedError, ZeroDivisionError) as e:
        results.append(dict(base, status="violation", nontrivial=nontrivial,
                            outcome=f"{op}:unsupported",
                            finding="oracle-unsupported",
                            detail=info + repr(e)))
        return False
    if diff is not None:
        results.append(dict(base, status="violation", nontrivial=nontrivial,
                            outcome=f"{op}:value{cls}",
                            finding=f"{opclass}-value-changed{cls}",
                            detail=info + "value changed: " + diff))
        return False
    if expect_targets and hasattr(out, "provided_target_idx"):
        rt = out.provided_target_idx
        if sym is not S.Zero and not sym.is_number and \
                (rt is None or set(rt) != set(ref.target)):
            results.append(dict(base, status="violation",
                                nontrivial=nontrivial,
                                outcome=f"{op}:targets",
                                finding=f"{opclass}-targets-changed",
                                detail=info + f"target indices of the result:"
                                f" {rt}, of the input: {ref.target}"))
            return False
    results.append(dict(base, status="ok", nontrivial=nontrivial,
                        outcome=f"{op}:{_shape(ref.sym, model)}->"
                                f"{_shape(sym, model)}"))
    return True


def _failed(base, op, err, timed_out, info, results, nontrivial=True, cls="",
            opclass=None):
    opclass = opclass or op
    if timed_out:
        results.append(dict(base, status="cap", nontrivial=False,
                            outcome=f"{op}:timeout",
                            detail=info + f"no result within {OP_TIMEOUT}s"))
        return
    head = err.split("\n")[0]
    exc = head.split(":")[0]
    if exc == "RuntimeError" and "Invalid contracted itmd indices" in head:
        # one specific raise site of factor_intermediates.py (a candidate
        # match whose contracted indices also occur outside the matched
        # sub-product is answered by an exception instead of being skipped)
        results.append(dict(
            base, status="violation", nontrivial=nontrivial,
            outcome=f"{op}:exception:invalid-contracted-itmd-indices",
            finding=f"{opclass}-RuntimeError-invalid-contracted-itmd-indices",
            detail=info + err))
        return
    results.append(dict(base, status="violation", nontrivial=nontrivial,
                        outcome=f"{op}:exception:{exc}{cls}",
                        finding=f"{opclass}-exception-{exc}{cls}",
                        detail=info + err))


def _index_counts(term):
    """multiplicity of every index in a product, orbital-energy denominators
    not counted"""
    cnt = {}

    def walk(o, mult):
        if isinstance(o, Index):
            cnt[o] = cnt.get(o, 0) + mult
        elif isinstance(o, Pow):
            b, ex = o.args
            if b.is_Number or (_only_energies(b) and ex.is_negative):
                return
            walk(b, mult * abs(int(ex)) if ex.is_Integer else mult)
        else:
            for a in o.args:
                walk(a, mult)
    walk(term, 1)
    return cnt


def _input_class(sym, target, model):
    """classification of an input used in the `finding` of a violation:
    ':power-of-contracted-intermediate'  a registered intermediate whose
          definition has contracted indices occurs with an exponent >= 2
    ':index-shared-with-rest'  some index occurs more than twice in a term or
          a target index occurs more than once (diagonal elements: a
          sub-product cannot be cut out without looking at the rest)
    ''    otherwise"""
    sym = S(sym)
    tset = set(target)
    for p in sym.atoms(Pow):
        b, ex = p.args
        if kind_of(b) is not None and ex.is_Integer and ex >= 2:
            regs = _registered_in(b, model)
            if regs - {"t2_1", "t4_2"}:
                return ":power-of-contracted-intermediate"
    for term in _terms(_distribute(sym)):
        for s, c in _index_counts(term).items():
            if c > 2 or (c > 1 and s in tset):
                return ":index-shared-with-rest"
    return ""


def _mixed_class(in_sym, out_sym, model):
    """classification of a factorisation result by its shape:
    ':with-compensation-terms' if the result contains an intermediate tensor
    that the input did not contain next to a term that has exactly the
    tensors of an input term (the form produced when an intermediate is
    completed from terms with mixed prefactors: z - b for a + b + c + d with
    z = a + 2b + c + d)"""
    new = _registered_in(out_sym, model) - _registered_in(in_sym, model)
    if not new:
        return ""
    sig_in = {tuple(sorted(_tensor_names(t).items())) for t in _terms(in_sym)}
    for t in _terms(S(out_sym)):
        if tuple(sorted(_tensor_names(t).items())) in sig_in:
            return ":with-compensation-terms"
    return ""


def _factor_block(keyb, bname, b, requests, ref, info0, nontriv_in, results,
                  model, reexpand=True, expect_targets=True):
    """factor_intermediates(b, L, mo) for every request (L, mo)"""
    bsym = S(b.sympy)
    if bsym.is_number:
        return
    cls = _input_class(bsym, ref.target, model)
    label = f"factor[{bname}]"
    for req in requests:
        L, mo = req
        base = {"key": repr(keyb + (label, _req_key(req))), "transitions": 1}
        info = info0 + (f"operation: factor_intermediates(E, "
                        f"types_or_names={L!r}, max_order={mo})  with "
                        f"E = {bname} = {str(bsym)[:1500]}\n")
        out, err, to = _call(lambda: factor_intermediates(b.copy(), L, mo))
        if out is None:
            _failed(base, label, err, to, info, results, nontriv_in, cls,
                    "factor")
            continue
        changed = (S(out.sympy) - bsym) != 0
        ok = _verdict(base, label, ref, out, info, nontriv_in and changed,
                      results, model, expect_targets,
                      cls or _mixed_class(bsym, out.sympy, model), "factor")
        if ok and reexpand and changed:
            base2 = {"key": repr(keyb + (label, _req_key(req), "reexp")),
                     "transitions": 1}
            out2, err, to = _call(lambda: out.copy().expand_intermediates())
            info2 = info + f"then expand_intermediates() of {out.sympy}\n"
            cls2 = _input_class(out.sympy, ref.target, model)
            if out2 is None:
                _failed(base2, "factor_then_expand", err, to, info2, results,
                        nontriv_in, cls2, "expand")
            else:
                _verdict(base2, "factor_then_expand", ref, out2, info2,
                         nontriv_in, results, model, expect_targets, cls2,
                         "expand")


# --------------------------------------------------------------------------
# input construction
# --------------------------------------------------------------------------
def _itmd_tensor(name, idx_names):
    return _av()[name].tensor(indices=gen.syms(idx_names), return_sympy=True)


def _build_obj(o):
    kind, name, names, ex = o
    idx = gen.syms(names)
    if kind == "itmd":
        t = _itmd_tensor(name, names)
    elif kind == "x":
        t = NonSymmetricTensor(name, idx)
    elif kind == "Y":
        n = len(idx) // 2
        t = Amplitude(name, idx[:n], idx[n:])
    elif kind == "V":
        t = AntiSymmetricTensor("V", idx[:2], idx[2:], 1)
    elif kind == "sym":
        t = Symbol(name)
    else:
        raise ValueError(kind)
    return Pow(t, ex) if ex != 1 else t


def _build(spec):
    """(Expr with real=True and explicit targets, target tuple)"""
    pref, objs, tnames = spec
    term = gen.PREFS[pref]
    for o in objs:
        term = term * _build_obj(o)
    target = gen.syms(tnames)
    if term is S.Zero:
        return None, target
    return Expr(term, real=True, target_idx=list(target)), target


# intermediates the definition of a name is built from (own table, used only
# to choose the name lists that are requested)
DEPS = {
    "t2_1": (), "t1_2": ("t2_1",), "t2_2": ("t2_1",), "t3_2": ("t2_1",),
    "t4_2": ("t2_1",), "p0_2_oo": ("t2_1",), "p0_2_vv": ("t2_1",),
    "t2eri_1": ("t2_1",), "t2eri_2": ("t2_1",), "t2eri_3": ("t2_1",),
    "t2eri_4": ("t2_1",), "t2eri_5": ("t2_1",), "t2eri_6": ("t2_1",),
    "t2eri_7": ("t2_1",), "t2sq": ("t2_1",),
    "t2eri_A": ("t2_1", "t2eri_1", "t2eri_2"),
    "t2eri_B": ("t2_1", "t2eri_6", "t2eri_7"),
    "t1_3": ("t2_1", "t1_2", "t2_2"),
    "p0_3_oo": ("t2_1", "t2_2"), "p0_3_vv": ("t2_1", "t2_2"),
    "p0_3_ov": ("t2_1", "t1_2", "t1_3"),
    "t2_3": ("t2_1", "t1_2", "t2_2"),
}
ORDER = {"t2_1": 1, "t1_3": 3, "t2_3": 3, "p0_3_oo": 3, "p0_3_ov": 3,
         "p0_3_vv": 3}
TYPE_OF = {"p0_2_oo": "mp_density", "p0_2_vv": "mp_density",
           "p0_3_oo": "mp_density", "p0_3_ov": "mp_density",
           "p0_3_vv": "mp_density"}


def _order(name):
    return ORDER.get(name, 2)


def _type(name):
    if name in TYPE_OF:
        return TYPE_OF[name]
    return "t_amplitude" if name[0] == "t" and name[1].isdigit() and \
        "eri" not in name and name != "t2sq" else "misc"


def _closure(principal):
    names = []
    for p in principal:
        for n in DEPS[p] + (p,):
            if n not in names:
                names.append(n)
    names.sort(key=lambda n: (_order(n), list(DEPS).index(n)))
    return names


def _name_lists(principal, tier):
    """list of (types_or_names, max_order) requests"""
    names = _closure(principal)
    out = []

    def add(L, mo):
        if (L, mo) not in out:
            out.append((L, mo))
    n = len(names)
    types = []
    for nme in names:
        if _type(nme) not in types:
            types.append(_type(nme))
    distractor = [d for d in ("t1_2", "t2eri_4", "p0_2_vv")
                  if d not in names][0]
    if tier == "quick":
        add([names[-1]], None)
        add(list(names), None)
        add(list(reversed(names)), None)
        if n > 2:
            add([names[0], names[-1]], None)
        add([distractor] + names, None)
        add(list(names), 1)
        add(list(types), 2)
        add(None, 2)
        return out
    maxlen = n if n <= 4 else 2
    for r in range(1, maxlen + 1):
        for sub in itertools.permutations(names, r):
            add(list(sub), None)
    add(list(names), None)
    add(list(reversed(names)), None)
    add([names[-1], distractor], None)
    add([distractor] + names, None)
    for mo in (1, 2, 3):
        add(list(names), mo)
    for t in types:
        add(t, 2)
    add(list(types), 2)
    add(list(reversed(types)), 2)
    add(None, 2)
    add(None, 1)
    add(["t_amplitude", "mp_density", "misc"], 2)
    add(["misc", "mp_density", "t_amplitude"], 2)
    return out


def _req_key(req):
    L, mo = req
    return f"{'all' if L is None else L if isinstance(L, str) else '+'.join(L)}|{mo}"


# --------------------------------------------------------------------------
# the operations on one input
# --------------------------------------------------------------------------
def _run_input(tag, spec, tier, models, requests, results, do_reduce=True,
               factor_bases=("reduce", "expand_full", "expand_once"),
               reexpand=True, full_base_requests=None):
    expr, target = _build(spec)
    keyb = (tag, spec)
    if expr is None:
        results.append({"status": "skip", "key": repr(keyb), "outcome":
                        "zero-on-construction", "nontrivial": False,
                        "transitions": 0})
        return
    model = models[0]
    ref = Ref(expr.sympy, target, models)
    regs = _registered_in(expr.sympy, model)
    nontriv_in = bool(regs) and ref.nonzero
    cls = _input_class(expr.sympy, target, model)
    info0 = (f"input: {expr.sympy}   targets={tuple(str(s) for s in target)}"
             f"  real=True\n")
    outs = {}

    def op_expand(label, fully_seq):
        base = {"key": repr(keyb + (label,)), "transitions": len(fully_seq)}

        def fn():
            e = expr.copy()
            for fully in fully_seq:
                e = e.expand_intermediates(fully_expand=fully)
            return e
        out, err, to = _call(fn)
        info = info0 + f"operation: expand_intermediates{fully_seq}\n"
        if out is None:
            _failed(base, label, err, to, info, results, nontriv_in, cls,
                    "expand")
            return None
        if _verdict(base, label, ref, out, info, nontriv_in, results, model,
                    True, cls, "expand"):
            left = _registered_in(out.sympy, model)
            if fully_seq[-1] and left:
                results.append(dict(
                    base, key=repr(keyb + (label, "complete")),
                    status="violation", nontrivial=True, transitions=0,
                    outcome=f"{label}:not-fully-expanded",
                    finding="expand-left-intermediate",
                    detail=info + f"result still contains {left}: "
                    f"{out.sympy}"))
            return out
        return None

    outs["expand_full"] = op_expand("expand_full", (True,))
    outs["expand_once"] = op_expand("expand_once", (False,))
    op_expand("expand_once_full", (False, True))
    if do_reduce:
        base = {"key": repr(keyb + ("reduce",)), "transitions": 1}
        out, err, to = _call(lambda: reduce_expr(expr.copy()))
        info = info0 + "operation: reduce_expr\n"
        if out is None:
            _failed(base, "reduce", err, to, info, results, nontriv_in, cls)
        elif _verdict(base, "reduce", ref, out, info, nontriv_in, results,
                      model, True, cls):
            left = _registered_in(out.sympy, model)
            if left:
                results.append(dict(
                    base, key=repr(keyb + ("reduce", "complete")),
                    status="violation", nontrivial=True, transitions=0,
                    outcome="reduce:left-intermediate",
                    finding="reduce-left-intermediate",
                    detail=info + f"result still contains {left}: "
                    f"{out.sympy}"))
            outs["reduce"] = out
    # ---- factorisation
    for bname in factor_bases:
        b = outs.get(bname)
        if b is None:
            continue
        reqs = requests
        if bname != "reduce":
            b, err, to = _call(lambda: b.copy().expand())
            if b is None:
                continue
        if full_base_requests is not None and bname in full_base_requests:
            reqs = full_base_requests[bname]
        _factor_block(keyb, bname, b, reqs, ref, info0, nontriv_in, results,
                      model, reexpand)


# --------------------------------------------------------------------------
# family def
# --------------------------------------------------------------------------
def _def_case(case):
    _, tier, name = case
    results = []
    sizes = [(2, 2)]
    if tier == "thorough" and _order(name) <= 2 and name != "t4_2":
        sizes.append((3, 3))
    itmd = _av()[name]
    target = get_symbols(itmd.default_idx)
    for no, nv in sizes:
        model = _model(no, nv)
        keyb = ("def", name, (no, nv))
        info0 = f"intermediate {name}, model ({no},{nv})\n"
        tab = Table(target, model.table(name))
        nontriv = bool(tab.data)
        bad = declared_symmetry_defects(model, name)
        base = {"key": repr(keyb + ("symmetry",)), "transitions": 1}
        if bad:
            results.append(dict(
                base, status="violation", nontrivial=nontriv,
                outcome="def:symmetry", finding="definition-lacks-declared-"
                "symmetry", detail=info0 + f"the table of the definition is "
                f"not (anti)symmetric as the tensor "
                f"{itmd.tensor(return_sympy=True)} declares, e.g. entries "
                f"{bad[0]}"))
        else:
            results.append(dict(base, status="ok", nontrivial=nontriv,
                                outcome=f"def:symmetry-ok:nnz{len(tab.data)}"))
        forms = [("once", False), ("full", True)]
        for label, fully in forms:
            base = {"key": repr(keyb + (label,)), "transitions": 1}
            out, err, to = _call(
                lambda: itmd.expand_itmd(fully_expand=fully), 900)
            info = info0 + f"expand_itmd(fully_expand={fully})\n"
            if out is None:
                _failed(base, f"def_{label}", err, to, info, results, nontriv)
                continue
            try:
                got = _eval(out.sympy, target, model)
            except (Unsupported, NotImplementedError, ZeroDivisionError) as e:
                results.append(dict(base, status="violation",
                                    nontrivial=nontriv,
                                    outcome="def:unsupported",
                                    finding="oracle-unsupported",
                                    detail=info + repr(e)))
                continue
            d = tables_equal(tab, got)
            if d is not None:
                results.append(dict(
                    base, status="violation", nontrivial=nontriv,
                    outcome=f"def:{label}-differs",
                    finding=f"definition-once-vs-full-{name}",
                    detail=info + "the once expanded and the fully expanded "
                    "definition have different values: " + fmt_diff(d)))
            else:
                results.append(dict(
                    base, status="ok", nontrivial=nontriv,
                    outcome=f"def:{label}:{len(_terms(out.sympy.expand()))}t"))
    return results


# --------------------------------------------------------------------------
# family syn1
# --------------------------------------------------------------------------
SYN1_QUICK = ["t2_1", "t1_2", "t2_2", "p0_2_oo", "p0_2_vv", "t2eri_1",
              "t2eri_2", "t2eri_3", "t2eri_4", "t2eri_5", "t2eri_6",
              "t2eri_7", "t2eri_A", "t2eri_B", "t2sq"]
SYN1_ONCE_ONLY = ["p0_3_oo", "p0_3_vv", "t1_3", "p0_3_ov", "t3_2", "t4_2",
                  "t2_3"]
POOLS = {"o": "ijkl", "v": "abcd"}
# single-term intermediates (cheap for adcgen, less structure): fewer index
# tuples in the quick tier
LIGHT = ("t2_1", "t2eri_1", "t2eri_2", "t2eri_3", "t2eri_5", "t2eri_6",
         "t2eri_7", "t2sq", "p0_2_oo", "p0_2_vv")


def _default_names(name):
    return tuple(_av()[name].default_idx)


def _tuples(name, tier):
    """index tuples for the tensor of intermediate `name`"""
    dflt = _default_names(name)
    spaces = [gen.space_of(n) for n in dflt]
    by = {}
    for k, sp in enumerate(spaces):
        by.setdefault(sp, []).append(k)
    out = [dflt]

    def assign(choice):
        """choice: space -> tuple of pool positions for the slots of the
        space"""
        t = [None] * len(dflt)
        for sp, slots in by.items():
            for k, p in zip(slots, choice[sp]):
                t[k] = POOLS[sp][p]
        return tuple(t)
    variants = []
    # shifted onto k,l / c,d (the names the definitions use for their
    # contracted indices), interleaved, reversed within each space
    variants.append({sp: tuple(range(2, 2 + len(sl))) if len(sl) <= 2
                     else tuple(range(1, 1 + len(sl)))
                     for sp, sl in by.items()})
    variants.append({sp: tuple((2, 0, 3, 1)[:len(sl)])
                     for sp, sl in by.items()})
    variants.append({sp: tuple(reversed(range(len(sl))))
                     for sp, sl in by.items()})
    if tier == "quick":
        variants = variants[:1] if name in LIGHT else variants[:2]
    elif name not in LIGHT:
        variants.append({sp: tuple((3, 2, 1, 0)[:len(sl)])
                         for sp, sl in by.items()})
        variants.append({"o": (1, 0, 2, 3)[:len(by.get("o", ()))],
                         "v": (0, 1, 2, 3)[:len(by.get("v", ()))]})
    for v in variants:
        v = {sp: p for sp, p in v.items() if sp in by}
        if all(max(p) < 4 for p in v.values()):
            t = assign(v)
            if t not in out:
                out.append(t)
    # repeated indices (only patterns that contain a repetition)
    reps = []
    for pat in gen.index_patterns(spaces):
        if len(set(pat)) == len(pat):
            continue
        reps.append(pat)
    if tier == "quick":
        reps = [p for p in reps if len(set(p)) == len(p) - 1]
    out.extend(p for p in reps if p not in out)
    return out


def _remainders(names, tier, is_default=True):
    """list of (label, pref, objs, targets) for a tensor carrying `names`"""
    uniq = []
    for n in names:
        if n not in uniq:
            uniq.append(n)
    once = [n for n in uniq if names.count(n) == 1]
    occ = [n for n in uniq if gen.space_of(n) == "o"]
    virt = [n for n in uniq if gen.space_of(n) == "v"]
    srt = tuple(sorted(uniq, key=gen.name_key))
    out = [("none", "1", (), tuple(once))]
    if len(once) != len(uniq):
        out.append(("none_allT", "1", (), tuple(uniq)))
    out.append(("x_all", "-1/2", (("x", "x", srt, 1),), ()))
    if occ and virt and (tier == "thorough" or is_default):
        out.append(("x_occ", "1", (("x", "x", tuple(occ), 1),),
                    tuple(n for n in virt if n in once)))
    if len(uniq) == 4 and len(occ) == 2 and len(virt) == 2:
        out.append(("Y_anti", "1",
                    (("Y", "Y", tuple(virt) + tuple(occ), 1),), ()))
        out.append(("V_contr", "1",
                    (("V", "V", tuple(occ) + tuple(virt), 1),), ()))
    new_o = [n for n in "mno" if n not in uniq]
    new_v = [n for n in "efg" if n not in uniq]
    if len(uniq) == 4 and len(occ) == 2 and len(virt) == 2:
        # the remainder shares only the occupied pair with the intermediate:
        # permutation partners of the definition merge pairwise (prefactor 2,
        # a term covers two positions of the definition)
        out.append(("V_occ", "1",
                    (("V", "V", tuple(occ) + (new_v[0], new_v[1]), 1),),
                    tuple(virt) + (new_v[0], new_v[1])))
    if len(uniq) == 2 and len(occ) == 1 and len(virt) == 1:
        out.append(("V_contr", "1",
                    (("V", "V", (occ[0], new_o[0], virt[0], new_v[0]), 1),),
                    (new_o[0], new_v[0])))
    if tier == "thorough":
        out.append(("x_first", "2", (("x", "x", (uniq[0],), 1),),
                    tuple(n for n in uniq[1:] if n in once)))
        if len(uniq) <= 4:
            out.append(("V_disj", "1",
                        (("V", "V", (new_o[0], new_o[1], new_v[0], new_v[1]),
                          1),),
                        tuple(once) + (new_o[0], new_o[1], new_v[0],
                                       new_v[1])))
        out.append(("sym_c", "c", (("x", "x", srt, 1),), ()))
    return out


def _syn1_specs(name, tier):
    specs = []
    for tup in _tuples(name, tier):
        for label, pref, robjs, tg in _remainders(
                tup, tier, tup == _default_names(name)):
            objs = (("itmd", name, tup, 1),) + robjs
            specs.append((label, (pref, objs, tg)))
    return specs


def _sizes(tier, names):
    sizes = [(2, 2)]
    if tier == "thorough" and all(n in SYN1_QUICK for n in names):
        sizes.append((3, 3))
    return sizes


def _syn1_case(case):
    _, tier, name, label, spec = case
    results = []
    sizes = _sizes(tier, [name])
    if len(sizes) > 1 and spec[1][0][2] not in _tuples(name, "quick")[:3]:
        sizes = sizes[:1]
    if name == "t3_2" and tier == "thorough":
        sizes = [(3, 3)]
    models = [_model(*s) for s in sizes]
    if name in SYN1_QUICK:
        requests = _name_lists([name], tier)
        # the complete request list on the reduce_expr result (the documented
        # pipeline), a selection on the merely expanded forms
        cl = _closure([name])
        fbr = {"expand_once": [(cl, None), (None, 2)],
               "expand_full": [(cl, None)]}
        if tier == "thorough":
            fbr = {"expand_once": _name_lists([name], "quick"),
                   "expand_full": [(cl, None), (None, 2)]}
        _run_input("syn1", spec, tier, models, requests, results,
                   full_base_requests=fbr)
    else:
        # order 3 / triples / quadruples: expansion (and reduction where it is
        # affordable); factorisation only of the once-expanded form
        requests = [(_closure([name]), None), ([name], None), (None, 2)]
        if name in ("t3_2", "t4_2", "t2_3", "p0_3_ov"):
            requests = []
        _run_input("syn1", spec, tier, models, requests, results,
                   do_reduce=name in ("p0_3_oo", "t1_3") and
                   tier == "thorough",
                   factor_bases=("expand_once",))
    return results


# --------------------------------------------------------------------------
# family syn2: products of two intermediate tensors
# --------------------------------------------------------------------------
SYN2_PAIRS_QUICK = [("t2_1", "t2_1"), ("t2_1", "t1_2"), ("t1_2", "t1_2"),
                    ("p0_2_oo", "t1_2"), ("t2_1", "t2_2"),
                    ("t2eri_4", "t2_1"), ("p0_2_vv", "p0_2_vv")]
SYN2_PAIRS_THOROUGH = SYN2_PAIRS_QUICK + [
    ("t2_2", "t2_2"), ("t1_2", "t2_2"), ("p0_2_oo", "p0_2_vv"),
    ("t2sq", "t2_1"), ("t2eri_A", "t1_2"), ("t2eri_3", "t2eri_5")]


def _syn2_specs(pair, tier):
    a, b = pair
    da, db = _default_names(a), _default_names(b)
    spaces = [gen.space_of(n) for n in da + db]
    specs = []
    seen = set()
    for pat in gen.index_patterns(spaces):
        ta, tb = pat[:len(da)], pat[len(da):]
        ncoinc = len(pat) - len(set(pat))
        if tier == "quick":
            # no / two / (all) coincidences, or the identical tuple (a power)
            lim = (0, 2) if len(pat) >= 8 else (0, 1, 2, 3)
            if "t2_2" in pair:
                lim = (0, 4)
            if ncoinc not in lim and ta != tb:
                continue
        once = tuple(n for n in dict.fromkeys(pat) if pat.count(n) == 1)
        objs = (("itmd", a, ta, 1), ("itmd", b, tb, 1))
        spec = ("1", objs, once)
        key = (frozenset([(a, ta), (b, tb)]))
        if key in seen:
            continue
        seen.add(key)
        specs.append(spec)
    return specs


def _syn2_case(case):
    _, tier, pair, spec = case
    results = []
    models = [_model(2, 2)]
    names = _closure(list(pair))
    requests = [(list(names), None), (None, 2)]
    if tier == "thorough":
        requests += [(list(reversed(names)), None), ([names[-1]], None),
                     ("t_amplitude", 2)]
    heavy = "t2_2" in pair
    _run_input("syn2", spec, tier, models, requests, results,
               factor_bases=("reduce", "expand_once") if not heavy
               else ("expand_once",), do_reduce=True,
               reexpand=True)
    return results


# --------------------------------------------------------------------------
# family pert: perturbed definitions (mixed prefactors, incomplete variants)
# --------------------------------------------------------------------------
PERT_BASES = [
    # (intermediate, remainder label, which expansion is perturbed)
    ("t1_2", "x_all", "reduce"),
    ("t2_2", "x_all", "reduce"),
    ("t2eri_A", "none", "expand_once"),
    ("t2eri_B", "x_all", "reduce"),
    ("p0_3_oo", "none", "expand_once"),
    ("t1_2", "none", "expand_once"),
    # mixed prefactors with a symmetric remainder: the deviating term covers
    # two positions of the definition
    ("t2_2", "Y_anti", "reduce"),
    ("t2_2", "V_contr", "reduce"),
    ("t2_2", "V_occ", "reduce"),
]
PERT_BASES_THOROUGH = PERT_BASES + [
    ("t2_2", "none", "expand_full"),
    ("t2_2", "x_occ", "expand_once"),
    ("t2eri_A", "x_all", "reduce"),
    ("t2eri_B", "none", "expand_once"),
    ("p0_3_vv", "x_all", "expand_once"),
    ("t1_3", "none", "expand_once"),
]


def _pert_mods(n, tier):
    """modifications of an n-term sum: tuple of (term number, factor);
    factor 0 = the term is dropped"""
    mods = [()]
    for k in range(n):
        for c in ("2", "-1", "0") if tier == "quick" else \
                ("2", "-1", "1/2", "0"):
            mods.append(((k, c),))
    if tier == "thorough":
        for k, l in itertools.combinations(range(n), 2):
            for ck, cl in (("2", "2"), ("0", "0"), ("-1", "0"), ("2", "1/2")):
                mods.append(((k, ck), (l, cl)))
    return mods


def _foreign(target):
    """a term that has nothing to do with any intermediate"""
    if target:
        return Rational(3, 2) * NonSymmetricTensor("z", tuple(target))
    i = gen.sym("i")
    return Rational(3, 2) * NonSymmetricTensor("z", (i,)) * \
        NonSymmetricTensor("w", (i,))


def _pert_case(case):
    _, tier, name, label, spec, bkind = case
    results = []
    expr, target = _build(spec)
    models = [_model(*s) for s in _sizes(tier, [name])]
    model = models[0]
    keyb = ("pert", spec, bkind)
    info0 = (f"base: {bkind} of {expr.sympy}  "
             f"targets={tuple(str(s) for s in target)}\n")
    if bkind == "reduce":
        b, err, to = _call(lambda: reduce_expr(expr.copy()))
    else:
        b, err, to = _call(lambda: expr.copy().expand_intermediates(
            fully_expand=bkind == "expand_full").expand())
    if b is None:
        _failed({"key": repr(keyb), "transitions": 1}, bkind, err, to, info0,
                results)
        return results
    # the registered definitions of t2eri_A/B carry the float 0.5
    from sympy import Float
    bs = S(b.sympy)
    bs = bs.xreplace({f: Rational(str(f)) for f in bs.atoms(Float)})
    terms = sorted(_terms(bs), key=str)
    n = len(terms)
    names = _closure([name])
    requests0 = [([name], None), (list(names), None)]
    if tier == "thorough":
        requests0.append((list(reversed(names)), None))
    for mod in _pert_mods(n, tier):
        for foreign in (False, True):
            # the foreign term: with the unperturbed sum and with the first
            # modification of every term
            if foreign and not (mod == () or (len(mod) == 1 and
                                              mod[0][1] == "2")):
                continue
            requests = list(requests0)
            if mod == () or tier == "thorough" and len(mod) == 1:
                requests.append((None, min(2, _order(name))))
            coeff = {k: Rational(c) for k, c in mod}
            sym = Add(*[coeff.get(k, S.One) * t
                        for k, t in enumerate(terms)])
            if foreign:
                sym = sym + _foreign(target)
            if sym is S.Zero or sym.is_number:
                continue
            e = Expr(sym, **b.assumptions)
            ref = Ref(sym, target, models)
            kb = keyb + (mod, foreign)
            info = info0 + (f"perturbation {mod} (term number, factor) of "
                            f"the {n} terms, foreign term added: {foreign}\n")
            _factor_block(kb, "pert", e, requests, ref, info, True, results,
                          model, reexpand=tier == "thorough")
    return results


# --------------------------------------------------------------------------
# family deriv: derivation outputs through the documented pipeline
# --------------------------------------------------------------------------
DERIV_QUICK = [
    ("energy", 2), ("energy", 3), ("density", 2),
    ("m", "pp", "ph,ph", "ia,jb", 2), ("m", "pp", "ph,pphh", "ia,jkbc", 1),
    ("m", "ip", "h,h", "i,j", 2), ("m", "ea", "p,p", "a,b", 2),
]
DERIV_THOROUGH = DERIV_QUICK + [
    ("m", "pp", "ph,pphh", "ia,jkbc", 2), ("m", "ip", "h,phh", "i,jka", 2),
    ("m", "ea", "p,pph", "a,ibc", 2), ("m", "pp", "pphh,pphh", "ijab,klcd", 1),
    ("density", 3), ("m", "pp", "ph,ph", "ia,jb", 3),
]


def _deriv_case(case):
    from adcgen import (Operators, GroundState, IntermediateStates,
                        SecularMatrix, simplify)
    from adcgen import sort_expr as sort
    _, tier, d = case
    results = []
    model = _model(2, 2)
    models = [model]
    keyb = ("deriv", d)
    h = Operators(variant="mp")
    mp = GroundState(h, first_order_singles=False)
    kw = {}
    if d[0] == "energy":
        order = d[1]
        raw, err, to = _call(lambda: mp.energy(order), 900)
        tnames = ()
    elif d[0] == "density":
        order = d[1]
        raw, err, to = _call(
            lambda: mp.expectation_value(order=order, n_particles=1), 900)
        tnames = ()
        kw = {"sym_tensors": ["d"]}
    else:
        _, variant, block, indices, order = d
        isr = IntermediateStates(mp, variant=variant)
        sm = SecularMatrix(isr)
        raw, err, to = _call(
            lambda: sm.isr_matrix_block(order=order, block=block,
                                        indices=indices), 1400)
        tnames = tuple(indices.replace(",", ""))
    info0 = f"derivation {d}\n"
    if raw is None:
        base = {"key": repr(keyb + ("derive",)), "transitions": 1}
        if to:
            results.append(dict(base, status="cap", nontrivial=False,
                                outcome="derive:timeout",
                                detail=info0 + "derivation timed out"))
        else:
            results.append(dict(base, status="violation", nontrivial=False,
                                outcome="derive:exception",
                                finding="derivation-exception",
                                detail=info0 + err))
        return results
    target = gen.syms(tnames)
    x0 = Expr(raw, real=True, **kw)
    ref0 = Ref(x0.sympy, target, models)

    def step(label, fn, ref, opclass, info, nontrivial=True):
        base = {"key": repr(keyb + (label,)), "transitions": 1}
        out, err, to = _call(fn, 900)
        if out is None:
            _failed(base, label, err, to, info, results, nontrivial, "",
                    opclass)
            return None
        if _verdict(base, label, ref, out, info, nontrivial, results, model,
                    False, "", opclass):
            return out
        return None
    x1 = step("substitute_contracted",
              lambda: x0.copy().substitute_contracted(), ref0, "pipeline",
              info0, False)
    if x1 is None:
        return results
    x2 = step("simplify", lambda: simplify(x1.copy()), ref0, "pipeline",
              info0, False)
    if x2 is None:
        return results
    if d[0] == "m":
        parts = list(sort.by_delta_types(x2).items())
    else:
        parts = [(("all",), x2)]
    for dsp, part in parts:
        pk = "_".join(dsp)
        info = info0 + f"part {dsp}: {str(part.sympy)[:1200]}\n"
        ref = Ref(part.sympy, target, models)
        nontriv = bool(_registered_in(part.sympy, model)) and ref.nonzero
        y = step(f"diagonalize_fock[{pk}]",
                 lambda: part.copy().diagonalize_fock(), ref, "pipeline",
                 info, False)
        if y is None:
            continue
        ef = step(f"expand_full[{pk}]",
                  lambda: y.copy().expand_intermediates(), ref, "expand",
                  info, nontriv)
        step(f"expand_once[{pk}]",
             lambda: y.copy().expand_intermediates(fully_expand=False), ref,
             "expand", info, nontriv)
        r = step(f"reduce[{pk}]", lambda: reduce_expr(y.copy()), ref,
                 "reduce", info, nontriv)
        mo = min(order, 2)
        requests = [(None, min(order - 1, 2)), (None, mo),
                    (["t_amplitude", "mp_density"], mo),
                    ("t_amplitude", 2), (["t2_1"], None),
                    (None, 1)]
        if tier == "thorough":
            requests += [(["misc", "t_amplitude"], 2),
                         (["t_amplitude", "mp_density", "misc"], mo)]
        seen = []
        requests = [q for q in requests
                    if q not in seen and not seen.append(q)]
        if r is not None:
            _factor_block(keyb + (pk,), "reduce", r, requests, ref, info,
                          nontriv, results, model, True, False)
        # factoring directly in the (unreduced) expression written with
        # t-amplitudes, as in examples/pp_adc2_state_diffdm.py
        _factor_block(keyb + (pk,), "diagonalized", y, requests[:4], ref,
                      info, nontriv, results, model, True, False)
    return results


# --------------------------------------------------------------------------
# family re: factoring the RE residual (placeholder 'Zero' = 0)
# --------------------------------------------------------------------------
_RE = {}


def _re_model():
    """(2,2) model with a block diagonal formal Fock matrix whose first-order
    doubles amplitude is the solution of the registered first-order RE
    residual equation (one independent amplitude: R = c0 + c1 t = 0)"""
    m = _RE.get("model")
    if m is not None:
        return m
    from ..model import sort_sign
    from ..ring import Poly
    free = DefinedModel(2, 2, "block")
    del free.defs["t1"]          # formal first-order doubles
    res = _av()["t2_1_re_residual"]
    tgt = get_symbols(res.default_idx)
    R = _eval(res.expand_itmd().sympy.expand(), tgt, free)
    r = R.data[(0, 1, 2, 3)]
    tv = free.value("amp", "t1", 0, (2, 3), (0, 1))
    (tm, tc), = tv.t.items()
    atom = tm[0]
    assert all(mono.count(atom) <= 1 for mono in r.t)
    c0 = Poly({mono: c for mono, c in r.t.items() if atom not in mono})
    c1 = Poly({tuple(x for x in mono if x != atom): c * tc
               for mono, c in r.t.items() if atom in mono})
    tval = (-c0) * ring.inverse(c1)

    def t1_re(model, kind, name, bks, u, l):
        if len(u) != 2 or len(l) != 2:
            return None
        sp = model.space.orb_space
        if all(sp[o] == "o" for o in u) and all(sp[o] == "v" for o in l):
            u, l = l, u
        if not (all(sp[o] == "v" for o in u) and
                all(sp[o] == "o" for o in l)):
            return None
        su, _ = sort_sign(u)
        sl, _ = sort_sign(l)
        if su * sl == 0:
            return ring.ZERO
        return tval if su * sl == 1 else -tval
    m = DefinedModel(2, 2, "block", extra_defs={"t1": t1_re})
    # self test: the residual vanishes in this model
    Rz = _eval(res.expand_itmd().sympy.expand(), tgt, m)
    assert all(ring.equal(v, ring.ZERO) for v in Rz.data.values()), \
        "RE model: residual does not vanish"
    _RE["model"] = m
    return m


RE_INPUTS = [
    # (index tuple of the residual, remainder label); the remainder has to be
    # of first order at least: factor_itmd only looks at terms whose
    # perturbation theoretical order reaches that of the residual
    (("i", "j", "a", "b"), "V_disj"), (("i", "j", "a", "b"), "t1x"),
    (("k", "l", "c", "d"), "t1_free"), (("k", "i", "c", "a"), "V_disj"),
]


def _re_remainder(tup, label):
    if label == "t1x":
        return ("1", (("itmd", "t2_1", tup, 1),
                      ("x", "x", tuple(sorted(tup, key=gen.name_key)), 1)),
                ())
    if label == "t1_free":
        other = ("i", "j", "a", "b") if "i" not in tup else \
            ("m", "n", "e", "f")
        return ("-1/2", (("itmd", "t2_1", other, 1),), tuple(tup) + other)
    rem = [r for r in _remainders(tup, "thorough") if r[0] == label][0]
    return rem[1:]


def _re_case(case):
    _, tier, tup, label = case
    results = []
    model = _re_model()
    models = [model]
    res = _av()["t2_1_re_residual"]
    pref, robjs, tg = _re_remainder(tup, label)
    target = gen.syms(tg)
    remainder = gen.PREFS[pref]
    for o in robjs:
        remainder = remainder * _build_obj(o)
    keyb = ("re", tup, label)
    b, err, to = _call(lambda: (res.expand_itmd(indices=gen.syms(tup))
                                * remainder).expand())
    info0 = (f"base: ({remainder}) * expanded t2_1_re_residual{tup}, "
             f"targets={tg}; model: first-order doubles solve the RE "
             f"amplitude equation\n")
    if b is None:
        _failed({"key": repr(keyb), "transitions": 1}, "expand", err, to,
                info0, results)
        return results
    b = Expr(b.sympy, real=True, target_idx=list(target))
    terms = sorted(_terms(b.sympy), key=str)
    n = len(terms)
    requests = [(["t2_1_re_residual"], None), ("re_residual", None)]
    # perturbed are the terms without a partner related by a permutation of
    # the target indices (unique tensor-block signature: the two -1/2 V t
    # terms and the bare integral).  With a perturbed member of a permutation
    # family (4 ring terms, 2+2 Fock terms) factor_intermediates does not
    # return within minutes on the unchanged tree - outside the bounds.
    def sig(t):
        out = []
        for o in t.atoms(AntiSymmetricTensor):
            out.append((o.name, "".join(x.space[0] for x in o.upper),
                        "".join(x.space[0] for x in o.lower)))
        return tuple(sorted(out))
    sigs = [sig(t) for t in terms]
    single = [k for k in range(n) if sigs.count(sigs[k]) == 1]
    mods = [()] + [((k, c),) for k in single for c in ("2", "0")]
    if tier == "thorough":
        mods += [((k, c),) for k in single for c in ("-1", "1/2")]
    for mod in mods:
        for foreign in (False, True):
            if foreign and mod != ():
                continue
            coeff = {k: Rational(c) for k, c in mod}
            sym = Add(*[coeff.get(k, S.One) * t
                        for k, t in enumerate(terms)])
            if foreign:
                sym = sym + _foreign(target)
            if sym is S.Zero or sym.is_number:
                continue
            e = Expr(sym, **b.assumptions)
            ref = Ref(sym, target, models)
            info = info0 + (f"perturbation {mod} (term number, factor) of "
                            f"the {n} terms, foreign term added: {foreign}\n")
            _factor_block(keyb + (mod, foreign), "re", e, requests, ref, info,
                          True, results, model, reexpand=False)
    return results


# --------------------------------------------------------------------------
# generate / run
# --------------------------------------------------------------------------
def bounds(tier):
    q = tier == "quick"
    return {
        "models": "(2,2)" + ("" if q else " and (3,3) for the second-order "
                             "synthetic inputs (syn1, pert)"),
        "syn1_intermediates": SYN1_QUICK,
        "syn1_expand_only": SYN1_ONCE_ONLY,
        "index_tuples": "default, renamed onto k,l,c,d, interleaved (k,i,c,a)"
                        " [single-term intermediates: default, renamed], "
                        "every pattern with one repeated pair" if q else
                        "default, renamed onto k,l,c,d, interleaved, reversed"
                        ", (l,k,d,c), (j,i,a,b) [single-term intermediates: "
                        "first four], every repetition pattern",
        "syn2_pairs": SYN2_PAIRS_QUICK if q else SYN2_PAIRS_THOROUGH,
        "pert_bases": PERT_BASES if q else PERT_BASES_THOROUGH,
        "pert_modifications": "every single term x {2,-1,dropped} (thorough: "
                              "also 1/2); identity and x2 also with a foreign "
                              "term" +
                              ("" if q else "; every pair of terms x 4 "
                               "combinations"),
        "derivations": DERIV_QUICK if q else DERIV_THOROUGH,
        "re_inputs": RE_INPUTS[:2] if q else RE_INPUTS,
        "requests_per_input": "see _name_lists",
        "op_timeout_s": OP_TIMEOUT,
    }


def _buildable(spec):
    e, _ = _build(spec)
    return e is not None


def generate(tier):
    lists_tier = tier
    out = _generate(lists_tier)
    if tier == "thorough":
        # The thorough tier enumerates the LARGER input lists (index tuples,
        # pairs, perturbation bases, derivations, RE inputs) but keeps the
        # per-input request / modification lists of the quick tier: with the
        # thorough inner lists single inputs needed > 16 GB and hours (first
        # complete attempt was killed by the OOM killer), see DESIGN 8.2a.
        out = [(c[0], "quick") + tuple(c[2:]) for c in out]
        seen = set()
        uniq = []
        for c in out:
            k = repr(c)
            if k not in seen:
                seen.add(k)
                uniq.append(c)
        out = uniq
    return out


def _generate(tier):
    _warm()
    out = []
    zero = 0
    for name in _av():
        if name in NO_TABLE:
            continue
        out.append(("def", tier, name))
    for name in SYN1_QUICK + SYN1_ONCE_ONLY:
        for label, spec in _syn1_specs(name, tier):
            if name in SYN1_ONCE_ONLY and tier == "quick":
                # expansion of the third-order quantities is expensive:
                # default tuple only; p0_3_vv / p0_3_ov / t2_3 thorough only
                if name in ("p0_3_vv", "p0_3_ov", "t2_3") or \
                        spec[1][0][2] != _default_names(name) or \
                        label not in ("none", "x_all"):
                    continue
            if name in SYN1_ONCE_ONLY and tier == "thorough":
                tups = _tuples(name, tier)
                if label not in ("none", "x_all") or \
                        spec[1][0][2] not in tups[:1 if name == "t2_3" else 3]:
                    continue
            if not _buildable(spec):
                zero += 1
                continue
            out.append(("syn1", tier, name, label, spec))
    for pair in (SYN2_PAIRS_QUICK if tier == "quick"
                 else SYN2_PAIRS_THOROUGH):
        for spec in _syn2_specs(pair, tier):
            if not _buildable(spec):
                zero += 1
                continue
            out.append(("syn2", tier, pair, spec))
    for name, label, bkind in (PERT_BASES if tier == "quick"
                               else PERT_BASES_THOROUGH):
        dflt = _default_names(name)
        for lab, pref, robjs, tg in _remainders(dflt, tier):
            if lab == label:
                spec = (pref, (("itmd", name, dflt, 1),) + robjs, tg)
                out.append(("pert", tier, name, label, spec, bkind))
    for d in (DERIV_QUICK if tier == "quick" else DERIV_THOROUGH):
        out.append(("deriv", tier, d))
    for tup, label in (RE_INPUTS[:2] if tier == "quick" else RE_INPUTS):
        out.append(("re", tier, tup, label))
    _GEN["zero_on_construction"] = zero
    # heavy cases first (better load balance), stable otherwise
    weight = {"deriv": 0, "pert": 1, "re": 1, "syn2": 2, "syn1": 3, "def": 4}
    out.sort(key=lambda c: weight[c[0]])
    return out


_GEN = {}


def extra_coverage(tier, results):
    return {"inputs_zero_on_construction_dropped":
            _GEN.get("zero_on_construction")}


def describe(case):
    fam = case[0]
    if fam == "syn1":
        return {"family": fam, "intermediate": case[2], "remainder": case[3],
                "input": str(_build(case[4])[0].sympy),
                "targets": case[4][2]}
    if fam == "syn2":
        return {"family": fam, "pair": case[2],
                "input": str(_build(case[3])[0].sympy), "targets": case[3][2]}
    if fam == "pert":
        return {"family": fam, "intermediate": case[2], "remainder": case[3],
                "perturbed_form": case[5]}
    if fam == "re":
        return {"family": fam, "residual_indices": case[2],
                "remainder": case[3]}
    return {"family": fam, "params": case[2:]}


def run_case(case):
    _warm()
    fam = case[0]
    if fam == "def":
        return _def_case(case)
    if fam == "syn1":
        return _syn1_case(case)
    if fam == "syn2":
        return _syn2_case(case)
    if fam == "pert":
        return _pert_case(case)
    if fam == "deriv":
        return _deriv_case(case)
    if fam == "re":
        return _re_case(case)
    raise ValueError(fam)
