"""C05  ISR properties and transition moments equal explicit matrix elements.

Explored: Properties(l_isr[, r_isr]) for every ADC variant (and mixed
left/right pairs) x blocks of the two lowest classes x operator strings
(n_create, n_annihilate) x order x subtract_gs for
expec_block_contribution and trans_moment_space (incl. the default operator
string per variant and lr_isr), and the block pairing / order bookkeeping of
expectation_value and trans_moment (sum of the parts an independent
enumeration prescribes).  Every request in a pristine forked interpreter.

Oracle: the explicit intermediate states of vmc/isr.py (see C03).  With D =
1/(nc! na!) d^{p..}_{q..} a+_p .. a_q .. (formal antisymmetric d), D0 the
series of <Psi0|D|Psi0> (normalised ground state), X / Y formal antisymmetric
amplitude vectors and g = n_occ! n_virt! of a class,

  expec_block_contribution = order-n coefficient of
        (g_I g_J)^(-1/2) sum_{I,J all} X_I <I~| D - [subtract_gs] D0 |J~> Y_J
  trans_moment_space       = order-n coefficient of
        g_I^(-1/2) sum_{I all} X_I <I~| D - [subtract_gs and nc == na] D0 |Psi0>

exactly, as polynomials in d, X, Y, t, tcc (off-shell identity).
"""
import itertools
from fractions import Fraction

from sympy import S

from .. import gen, ring, fock, rspt
from ..ring import Poly, ZERO, ONE
from ..model import Space, Model
from ..evalexpr import evaluate, tables_equal, Table, Unsupported
from ..isr import ISR, VARIANT_CLASSES, space_string
from .common import fmt_diff, safe_call
from .c03 import _fact, _split

ID = "C05"
FRESH_FORK = True
CASE_TIMEOUT = 3000
RULE = ("state = (request, left/right ADC variant, classes, operator string, "
        "order, subtract_gs, model space); non-trivial = the explicit value "
        "is not identically zero")
ASSUMPTIONS = [
    "MP partitioning, formal amplitudes / operator matrix / ADC vectors "
    "(off-shell identity, implies the on-shell statement)",
    "normalisation as documented in expec_block_contribution / "
    "trans_moment_space: 1/sqrt(n_occ! n_virt!) per amplitude vector, "
    "unrestricted sums",
    "model spaces in bounds()",
]

_TIER = ["quick"]
MODELS_Q = {"pp": [(2, 2)], "ip": [(2, 1), (2, 2)], "ea": [(1, 2), (2, 2)],
            "dip": [(3, 1)], "dea": [(1, 3)]}
MODELS_T = {"pp": [(2, 2), (3, 3)], "ip": [(2, 1), (2, 2), (3, 2)],
            "ea": [(1, 2), (2, 2), (2, 3)], "dip": [(3, 1), (3, 2)],
            "dea": [(1, 3), (2, 3)]}


def bounds(tier):
    return {"models": {k: [list(m) for m in v] for k, v in
                       (MODELS_Q if tier == "quick" else MODELS_T).items()},
            "max_order": 2, "operators": "expec: k = 1, 2; transition "
            "moments: default string per variant and (nc, na) with nc - na "
            "matching the variant, nc + na <= 4",
            "mixed_pairs": [["pp", "ip"], ["ip", "ea"], ["ip", "pp"]]}


def _tm_strings(variant, tier):
    lowest = VARIANT_CLASSES[variant][0]
    d = lowest[1] - lowest[0]        # nc - na needed
    out = [None]
    for na in range(0, 3):
        nc = na + d
        if nc < 0 or nc + na > (3 if tier == "quick" else 4) or nc + na == 0:
            continue
        out.append((nc, na))
    # a string with the wrong particle balance (must give zero)
    out.append((lowest[1] + 1, lowest[0]))
    return out


def generate(tier):
    _TIER[0] = tier
    cases = []
    for variant in ("pp", "ip", "ea", "dip", "dea"):
        classes = VARIANT_CLASSES[variant][:2]
        for c1 in classes:
            for c2 in classes:
                for n in (0, 1, 2):
                    second = (c1 == c2 == classes[1])
                    if n == 2 and second and tier == "quick":
                        continue
                    if n == 2 and variant in ("dip", "dea") and \
                            (c1, c2) != (classes[0], classes[0]) and \
                            tier == "quick":
                        continue
                    for k in (1, 2):
                        if k == 2 and (n == 2 and (c1 != classes[0] or
                                                   c2 != classes[0])):
                            continue
                        if k == 2 and tier == "quick" and n >= 1 and second:
                            continue
                        for sub in (True, False):
                            if not sub and n == 2 and tier == "quick" and \
                                    (c1, c2) != (classes[0], classes[0]):
                                continue
                            cases.append(("expec", variant, variant, c1, c2,
                                          n, k, sub))
        for cls in classes:
            for n in (0, 1, 2):
                for string in _tm_strings(variant, tier):
                    if string is not None and sum(string) >= 3 and n == 2 \
                            and tier == "quick":
                        continue
                    for sub in (True, False):
                        if not sub and (string is None or
                                        string[0] != string[1]):
                            continue   # subtract_gs only matters if nc == na
                        cases.append(("tm", variant, cls, n, string, sub,
                                      "left"))
        cases.append(("sum_expec", variant, variant, 0, 1))
        cases.append(("sum_tm", variant, 0))
        cases.append(("sum_expec", variant, variant, 1, 1))
        cases.append(("sum_tm", variant, 1))
        if variant in ("dip", "dea"):
            # lowest class with two indices: order bookkeeping that confuses
            # the length of the space string with the number of spaces
            cases.append(("sum_expec", variant, variant, 2, 1))
        if variant in ("pp", "ip"):
            cases.append(("sum_expec", variant, variant, 2, 1))
            cases.append(("sum_tm", variant, 2))
    # mixed left / right variants
    for lv, rv in (("pp", "ip"), ("ip", "ea"), ("ip", "pp")):
        cl, cr = VARIANT_CLASSES[lv][0], VARIANT_CLASSES[rv][0]
        for n in (0, 1):
            cases.append(("expec", lv, rv, cl, cr, n, 1, True))
        cr2 = VARIANT_CLASSES[rv][1]
        cases.append(("tm", (lv, rv), cr, 1, None, True, "right"))
        cases.append(("tm", (lv, rv), cr2, 1, None, True, "right"))
        cases.append(("tm", (lv, rv), cl, 1, None, True, "left"))
        cases.append(("sum_expec", lv, rv, 1, 1))
    cases.sort(key=lambda c: (c[0].startswith("sum"),
                              c[5] if c[0] == "expec" else
                              c[3] if c[0] == "tm" else 0))
    return cases


def cost(case):
    if case[0] == "expec":
        return 8 ** case[5] * (sum(case[3]) + sum(case[4])) ** 2 * case[6]
    if case[0] == "tm":
        return 8 ** case[3] * sum(case[2]) ** 2
    return 50 * case[-2] ** 3 if case[0] == "sum_expec" else 50 * case[-1] ** 3


def describe(case):
    return {"request": case[0], "args": case[1:]}


def _props(lv, rv):
    from adcgen import (Operators, GroundState, IntermediateStates)
    from adcgen.properties import Properties
    gs = GroundState(Operators("mp"))
    l_isr = IntermediateStates(gs, lv)
    r_isr = l_isr if rv == lv else IntermediateStates(gs, rv)
    return Properties(l_isr, None if rv == lv else r_isr)


def _op_terms(fs, model, nc, na):
    allorb = fs.occ + fs.virt
    terms = []
    for up in itertools.combinations(allorb, nc):
        for lo in itertools.combinations(allorb, na):
            c = model.value("anti", "d", 0, up, lo)
            ops = tuple([("+", p) for p in up] +
                        [("-", q) for q in reversed(lo)])
            terms.append((ops, c))
    return terms


_cache = {}


def _explicit(variant, no, nv, maxorder):
    key = (variant, no, nv, maxorder)
    e = _cache.get(key)
    if e is None:
        fs = fock.FockSpace(no, nv)
        model = _cache.get(("model", no, nv))
        if model is None:
            model = _cache[("model", no, nv)] = Model(Space(no, nv, False))
        e = _cache[key] = ISR(fs, model, variant, maxorder)
    return e


def _amp(model, name, cls, asg):
    occ, virt = _split(asg, cls)
    return model.value("amp", name, 0, tuple(virt), tuple(occ))


def _all_assignments(fs, cls):
    return itertools.product(*([fs.occ] * cls[0] + [fs.virt] * cls[1]))


def _pref(*gs):
    g = 1
    for x in gs:
        g *= x
    return ring.sqrt_atom(g) * Fraction(1, g)


def _expec_value(lv, rv, c1, c2, order, k, sub, no, nv):
    El = _explicit(lv, no, nv, max(order, 1))
    Er = El if rv == lv else _explicit(rv, no, nv, max(order, 1))
    fs, model = El.fs, El.model
    n = El.nmax
    terms = _op_terms(fs, model, k, k)
    d0 = El.gs_expectation_series(terms) if sub else None
    total = Poly()
    cache = {}
    for a1 in _all_assignments(fs, c1):
        s1, I = El.to_basis(c1, *_split(a1, c1))
        if not s1:
            continue
        x = _amp(model, "X", c1, a1)
        for a2 in _all_assignments(fs, c2):
            s2, J = Er.to_basis(c2, *_split(a2, c2))
            if not s2:
                continue
            ser = cache.get((I, J))
            if ser is None:
                b = El.isr_bra[(c1, I)]
                kk = Er.isr_ket[(c2, J)]
                dk = [rspt.apply_terms(terms, st) if st else {} for st in kk]
                ser = rspt.series_dot(b, dk, n)
                if sub:
                    ov = rspt.series_dot(b, kk, n)
                    corr = rspt.series_mul(d0, ov, n)
                    ser = [p - q for p, q in zip(ser, corr)]
                cache[(I, J)] = ser
            v = ser[order]
            if v.t:
                y = _amp(model, "Y", c2, a2)
                total.iadd(v * x * y, s1 * s2)
    g1 = _fact(c1[0]) * _fact(c1[1])
    g2 = _fact(c2[0]) * _fact(c2[1])
    return total * _pref(g1, g2), model


def _tm_value(variant, cls, order, nc, na, sub, no, nv):
    E = _explicit(variant, no, nv, max(order, 1))
    fs, model = E.fs, E.model
    n = E.nmax
    terms = _op_terms(fs, model, nc, na)
    dk = [rspt.apply_terms(terms, st) if st else {} for st in E.ket0]
    d0 = E.gs_expectation_series(terms) if (sub and nc == na) else None
    total = Poly()
    cache = {}
    for a1 in _all_assignments(fs, cls):
        s1, I = E.to_basis(cls, *_split(a1, cls))
        if not s1:
            continue
        ser = cache.get(I)
        if ser is None:
            b = E.isr_bra[(cls, I)]
            ser = rspt.series_dot(b, dk, n)
            if d0 is not None:
                ov = rspt.series_dot(b, E.ket0, n)
                corr = rspt.series_mul(d0, ov, n)
                ser = [p - q for p, q in zip(ser, corr)]
            cache[I] = ser
        v = ser[order]
        if v.t:
            total.iadd(v * _amp(model, "X", cls, a1), s1)
    g = _fact(cls[0]) * _fact(cls[1])
    return total * _pref(g), model


def _scalar_table(p):
    return Table((), {(): p} if p.t else {})


def run_case(case):
    kind = case[0]
    models = MODELS_Q if _TIER[0] == "quick" else MODELS_T
    results = []
    if kind == "expec":
        _, lv, rv, c1, c2, order, k, sub = case
        props = _props(lv, rv)
        block = f"{space_string(c1)},{space_string(c2)}"
        lib, err = safe_call(props.expec_block_contribution, order, block, k,
                             sub)
        if err:
            return _exc(case, err)
        sizes = [m for m in models[lv] if m in models[rv] or lv == rv]
        if lv != rv:
            sizes = [(2, 2)]
        for no, nv in sizes:
            if max(c1[0], c2[0]) > no or max(c1[1], c2[1]) > nv:
                continue
            if (no, nv) == (3, 3) and order == 2 and (c1, c2) != ((1, 1),
                                                                   (1, 1)):
                continue
            ref, model = _expec_value(lv, rv, c1, c2, order, k, sub, no, nv)
            results.append(_compare(case, lib, ref, model, (no, nv),
                                    "expectation-value-block-differs-from-"
                                    "explicit-matrix-element"))
        return results
    if kind == "tm":
        _, variant, cls, order, string, sub, lr = case
        if isinstance(variant, tuple):
            lv, rv = variant
        else:
            lv = rv = variant
        props = _props(lv, rv)
        v_used = lv if lr == "left" else rv
        lowest = VARIANT_CLASSES[v_used][0]
        if string is None:
            nc, na = lowest[1], lowest[0]
            lib, err = safe_call(props.trans_moment_space, order,
                                 space_string(cls), None, None, lr, sub)
        else:
            nc, na = string
            lib, err = safe_call(props.trans_moment_space, order,
                                 space_string(cls), nc, na, lr, sub)
        if err:
            return _exc(case, err)
        for no, nv in models[v_used]:
            if cls[0] > no or cls[1] > nv:
                continue
            ref, model = _tm_value(v_used, cls, order, nc, na, sub, no, nv)
            results.append(_compare(case, lib, ref, model, (no, nv),
                                    "transition-moment-differs-from-explicit-"
                                    "matrix-element"))
        return results
    if kind == "sum_expec":
        return _run_sum_expec(case)
    if kind == "sum_tm":
        return _run_sum_tm(case)
    raise ValueError(kind)


def _exc(case, err):
    return {"status": "violation", "key": repr(case), "transitions": 1,
            "outcome": "exception", "nontrivial": True,
            "finding": f"{case[0]}-exception", "detail": err}


def _compare(case, lib, ref, model, size, finding):
    key = repr((case, size))
    base = {"key": key, "transitions": 1, "nontrivial": bool(ref.t)}
    info = f"request {case} model={size}\n"
    try:
        lib_t = evaluate(lib, (), model, expand=True)
    except Unsupported as e:
        return dict(base, status="violation", outcome="unsupported",
                    finding="operator-or-unknown-node-in-result",
                    detail=info + str(e))
    diff = tables_equal(lib_t, _scalar_table(ref))
    if diff is not None:
        return dict(base, status="violation", outcome=f"{case[0]}:value",
                    finding=finding,
                    detail=info + "explicit vs library: " + fmt_diff(diff) +
                    f"\nlibrary expression: {str(lib)[:1200]}")
    return dict(base, status="ok",
                outcome=f"{case[0]}:{case[1]}:n"
                f"{case[5] if case[0] == 'expec' else case[3]}:"
                f"nz{int(bool(ref.t))}")


def _block_orders(lv, rv, adc_order):
    """independent enumeration: block (mu, nu) through order n - mu - nu"""
    out = []
    cl, cr = VARIANT_CLASSES[lv], VARIANT_CLASSES[rv]
    for mu in range(adc_order // 2 + 1):
        for nu in range(adc_order // 2 + 1):
            lc = (cl[0][0] + mu, cl[0][1] + mu)
            rc = (cr[0][0] + nu, cr[0][1] + nu)
            out.append((lc, rc, adc_order - mu - nu))
    return out


def _run_sum_expec(case):
    _, lv, rv, adc_order, k = case
    props = _props(lv, rv)
    total, err = safe_call(props.expectation_value, adc_order, k)
    if err:
        return _exc(case, err)
    parts = S.Zero
    for lc, rc, mo in _block_orders(lv, rv, adc_order):
        for o in range(mo + 1):
            p, err = safe_call(props.expec_block_contribution, o,
                               f"{space_string(lc)},{space_string(rc)}", k)
            if err:
                return _exc(case, err)
            parts += p
    model = Model(Space(2, 2, False))
    return _compare_exprs(case, total, parts, model,
                          "expectation_value-is-not-the-sum-of-its-blocks")


def _run_sum_tm(case):
    _, variant, adc_order = case
    props = _props(variant, variant)
    total, err = safe_call(props.trans_moment, adc_order)
    if err:
        return _exc(case, err)
    parts = S.Zero
    cl = VARIANT_CLASSES[variant]
    for mu in range(adc_order // 2 + 1):
        c = (cl[0][0] + mu, cl[0][1] + mu)
        for o in range(adc_order - mu + 1):
            p, err = safe_call(props.trans_moment_space, o, space_string(c))
            if err:
                return _exc(case, err)
            parts += p
    model = Model(Space(2, 2, False))
    return _compare_exprs(case, total, parts, model,
                          "trans_moment-is-not-the-sum-of-its-spaces")


def _compare_exprs(case, total, parts, model, finding):
    base = {"key": repr(case), "transitions": 2, "nontrivial": True}
    try:
        a = evaluate(total, (), model, expand=True)
        b = evaluate(parts, (), model, expand=True)
    except Unsupported as e:
        return dict(base, status="violation", outcome="unsupported",
                    finding="operator-or-unknown-node-in-result",
                    detail=str(e))
    diff = tables_equal(a, b)
    if diff is not None:
        return dict(base, status="violation", outcome=f"{case[0]}:value",
                    finding=finding, detail=f"request {case}: " +
                    fmt_diff(diff))
    return dict(base, status="ok", outcome=f"{case[0]}:{case[1]}")
