"""C12  Registered intermediate definitions equal the quantities they name.

Explored: all 25 registered intermediates x {once expanded, fully expanded} x
index tuples {default, every transposition of two same-space target names,
renamed, numbered, one repeated pair} x the model spaces of `bounds`, each
request in a pristine forked interpreter.

Oracles (all independent of adcgen/intermediates.py):

  MP t-amplitudes   once expanded: off-shell step identity of determinant-space
                    RSPT with FORMAL real lower-order amplitudes (see C02);
                    fully expanded: amplitudes of the explicitly computed MP
                    series (real antisymmetrised integrals, canonical
                    orbitals; formal orbital energies in the (2,2) model, one
                    generic rational point of orbital energies in larger
                    models).  t4_2 (factorised form) on-shell only.
  MP densities      order-n coefficient of <Psi|a+_p a_q|Psi>/<Psi|Psi>, off-
                    shell for the once expanded form (on-shell arbiter), on-
                    shell for the fully expanded form.
  RE residuals      projection <Phi_k|H0 psi_n + H1 psi_(n-1) - sum E_m
                    psi_(n-m)> of the RSPT equation with the RE partitioning
                    (formal real f, V, amplitudes), up to a non-zero rational
                    constant.
  t2eri_1..7, t2sq  contraction table typed from the adcc documentation
                    (LazyMp.t2eri / t2sq einsum strings); t2eri_A/B from the
                    libadc formulas pia = pi1/2 + pi2 - P_ij pi2,
                    pib = -pi6/2 + pi7 - P_bc pi7 on those tables.
  declared symmetry every permutation reported by `tensor_symmetry` must hold
                    for the value table of the definition.
"""
import itertools
from fractions import Fraction

from sympy import S

from adcgen.indices import split_idx_string

from .. import gen, ring, fock, rspt
from ..ring import Poly, ZERO, ONE
from ..model import Space, Model, orb_energy, fock_canonical
from ..evalexpr import evaluate, tables_equal, Table, Unsupported
from .common import fmt_diff, safe_call

ID = "C12"
FRESH_FORK = True
CASE_TIMEOUT = 3000
RULE = ("state = (intermediate, expansion mode, index tuple, model space); "
        "non-trivial = the reference table is not identically zero")
ASSUMPTIONS = [
    "real orbital basis (bra-ket symmetric f, V; no complex conjugate "
    "amplitudes) as assumed by the registered definitions; canonical "
    "orbitals for MP quantities, formal f for the RE residuals",
    "models larger than (2,2): on-shell comparisons use one generic rational "
    "point of orbital energies (integrals stay formal); (2,2): formal "
    "orbital energies",
    "documented wavefunction ansatz (doubles subtracted)",
]

T_AMPL = {"t2_1": (1, 2), "t1_2": (2, 1), "t2_2": (2, 2), "t3_2": (2, 3),
          "t4_2": (2, 4), "t1_3": (3, 1), "t2_3": (3, 2)}
DENS = {"p0_2_oo": 2, "p0_2_vv": 2, "p0_3_oo": 3, "p0_3_ov": 3, "p0_3_vv": 3}
RESID = {"t2_1_re_residual": (1, 2), "t1_2_re_residual": (2, 1),
         "t2_2_re_residual": (2, 2)}
# adcc einsum strings (operands: t2 = first-order doubles t[i,j,a,b], then an
# ERI block <pq||rs> in the index order of the string)
EINSUM = {
    "t2eri_1": ("ijbc,kabc->ijka", "te"),
    "t2eri_2": ("ilab,lkjb->ijka", "te"),
    "t2eri_3": ("klab,ijkl->ijab", "te"),
    "t2eri_4": ("jkac,kbic->ijab", "te"),
    "t2eri_5": ("ijcd,abcd->ijab", "te"),
    "t2eri_6": ("jkbc,jkia->iabc", "te"),
    "t2eri_7": ("ijbd,jcad->iabc", "te"),
    "t2sq": ("ikac,jkbc->iajb", "tt"),
}
TENSOR_NAME = {"t2eri_1": "t2eri1", "t2eri_2": "t2eri2", "t2eri_3": "t2eri3",
               "t2eri_4": "t2eri4", "t2eri_5": "t2eri5", "t2eri_6": "t2eri6",
               "t2eri_7": "t2eri7"}
DEFAULT_IDX = {
    "t2_1": "ijab", "t1_2": "ia", "t2_2": "ijab", "t3_2": "ijkabc",
    "t4_2": "ijklabcd", "t1_3": "ia", "t2_3": "ijab",
    "t2_1_re_residual": "ijab", "t1_2_re_residual": "ia",
    "t2_2_re_residual": "ijab", "p0_2_oo": "ij", "p0_2_vv": "ab",
    "p0_3_oo": "ij", "p0_3_ov": "ia", "p0_3_vv": "ab", "t2eri_1": "ijka",
    "t2eri_2": "ijka", "t2eri_3": "ijab", "t2eri_4": "ijab",
    "t2eri_5": "ijab", "t2eri_6": "iabc", "t2eri_7": "iabc",
    "t2eri_A": "ijka", "t2eri_B": "iabc", "t2sq": "iajb",
}
ALL = list(DEFAULT_IDX)
_TIER = ["quick"]

E_POINT = None


def _energy_point(no, nv):
    vals = {}
    for k in range(no):
        vals[f"e{k}"] = -Fraction(11 + 7 * k + 3 * k * k, 13)
    for k in range(nv):
        vals[f"e{no + k}"] = Fraction(5 + 3 * k + 2 * k * k, 11)
    return vals


def bounds(tier):
    return {"intermediates": ALL,
            "models": _models(tier),
            "index_variants": "default, transpositions of same-space target "
                              "names, renamed, numbered, repeated pair",
            "numeric_energy_point": "occ -(11+7k+3k^2)/13, virt "
                                    "(5+3k+2k^2)/11"}


def _models(tier):
    m = {}
    for name in ALL:
        if name == "t4_2":
            m[name] = [[4, 4]]
        elif name in ("t3_2",):
            m[name] = [[3, 3]]
        elif name in ("p0_3_ov", "t1_3", "t2_3"):
            m[name] = [[2, 2], [3, 3]]
            if name == "t2_3" and tier == "thorough":
                m[name].append([4, 4])
        else:
            m[name] = [[2, 2], [3, 3]] if tier == "thorough" or \
                name in ("t2_1", "t1_2", "t2_2", "t2sq", "t2eri_4") \
                else [[2, 2]]
    return m


def _index_variants(name, tier):
    d = DEFAULT_IDX[name]
    out = [("default", d)]
    names = list(d)
    # transpositions of two target names of the same space
    seen = set()
    for x, y in itertools.combinations(range(len(names)), 2):
        if gen.space_of(names[x]) != gen.space_of(names[y]):
            continue
        nn = list(names)
        nn[x], nn[y] = nn[y], nn[x]
        s = "".join(nn)
        if s not in seen:
            seen.add(s)
            out.append((f"swap{x}{y}", s))
    if name == "t4_2" or (tier == "quick" and len(names) >= 6):
        out = out[:3]
    # renamed
    occ = iter("mnolkji")
    virt = iter("fedcbag")
    ren = "".join(next(occ) if gen.space_of(c) == "o" else next(virt)
                  for c in names)
    out.append(("renamed", ren))
    num = "".join(f"{c}{k + 1}" for k, c in enumerate(names))
    out.append(("numbered", num))
    # shifted names: the target indices take the names the definitions use
    # internally for their contracted indices (j, k, b, c, l, m, d, e ...)
    O, V = "ijklmno", "abcdefg"
    for sh in (1, 2, 3, 4):
        try:
            shifted = "".join(
                (O[O.index(c) + sh] if c in O else V[V.index(c) + sh])
                for c in names)
        except IndexError:
            continue
        out.append((f"shift{sh}", shifted))
    # a repeated pair (first two same-space positions)
    for x, y in itertools.combinations(range(len(names)), 2):
        if gen.space_of(names[x]) == gen.space_of(names[y]):
            nn = list(names)
            nn[y] = nn[x]
            out.append(("repeated", "".join(nn)))
            break
    return out


def generate(tier):
    _TIER[0] = tier
    cases = []
    for name in ALL:
        for full in (False, True):
            if name in RESID and full:
                continue
            variants = _index_variants(name, tier)
            for vname, idx in variants:
                if name in ("t1_3", "t2_3", "p0_3_ov", "t4_2", "t3_2") and \
                        full and vname not in ("default", "renamed",
                                               "shift2") and \
                        tier == "quick":
                    continue
                cases.append(("value", name, full, vname, idx))
        cases.append(("symmetry", name))
    return cases


def cost(case):
    if case[0] != "value":
        return 1
    w = {"t2_3": 400, "t1_3": 100, "p0_3_ov": 200, "t4_2": 300,
         "t3_2": 30}.get(case[1], 2)
    return w * (3 if case[2] else 1)


def describe(case):
    return {"request": case[0], "args": case[1:]}


# ------------------------------------------------------------------ models
def _model_off(no, nv, canonical=True):
    defs = {"e": orb_energy}
    if canonical:
        defs["f"] = fock_canonical
    return Model(Space(no, nv, False), defs=defs,
                 bks_override={"V": 1, "f": 1})


_on_cache = {}


def _model_on(no, nv, nmax):
    """(model, fs, psi list, numeric?) with amplitude tensors t1..t3 valued
    by the explicit MP series"""
    key = (no, nv)
    hit = _on_cache.get(key)
    if hit and hit[4] >= nmax:
        return hit
    numeric = (no, nv) != (2, 2)
    fs = fock.FockSpace(no, nv)
    defs = {"f": fock_canonical}
    if numeric:
        pt = _energy_point(no, nv)

        def e_handler(model, kind, name, bks, u, l):
            return ring.const(pt[f"e{u[0]}"])

        def energy(p):
            return ring.const(pt[f"e{p}"])
        defs["e"] = e_handler
    else:
        defs["e"] = orb_energy

        def energy(p):
            return ring.var(f"e{p}")
    if numeric:
        def fcan(model, kind, name, bks, u, l):
            return ring.const(pt[f"e{u[0]}"]) if u[0] == l[0] else ZERO
        defs["f"] = fcan
    base = Model(Space(no, nv, False), defs=dict(defs),
                 bks_override={"V": 1, "f": 1})
    ham = rspt.Hamiltonian(fs, base, "mp")
    psi, en = rspt.rspt_mp(ham, nmax, energy)

    def make(order):
        def h(model, kind, name, bks, u, l):
            return rspt.amplitude_of_state(fs, psi[order], u, l)
        return h
    d2 = dict(defs)
    for n in range(1, nmax + 1):
        d2[f"t{n}"] = make(n)
    model = Model(Space(no, nv, False), defs=d2,
                  bks_override={"V": 1, "f": 1})
    _add_pi_handlers(model, fs)
    _on_cache[key] = (model, fs, psi, numeric, nmax)
    return _on_cache[key]


# ------------------------------------------------- einsum reference tables
def _t2(model, i, j, a, b):
    return model.value("amp", "t1", 0, (a, b), (i, j))


def _eri(model, p, q, r, s):
    return model.value("anti", "V", 0, (p, q), (r, s))


def _einsum_table(model, fs, name):
    """dict assignment (in the order of the output string) -> value"""
    cache = model.__dict__.setdefault("_pi_tables", {})
    hit = cache.get(name)
    if hit is not None:
        return hit
    spec, kinds = EINSUM[name]
    ins, out = spec.split("->")
    in1, in2 = ins.split(",")
    letters = sorted(set(in1 + in2))
    rng = {c: (fs.occ if c in "ijklmn" else fs.virt) for c in letters}
    summed = [c for c in letters if c not in out]
    res = {}
    for oasg in itertools.product(*[rng[c] for c in out]):
        env = dict(zip(out, oasg))
        acc = Poly()
        for sasg in itertools.product(*[rng[c] for c in summed]):
            env.update(zip(summed, sasg))
            x = _t2(model, *[env[c] for c in in1])
            if not x.t:
                continue
            if kinds == "tt":
                y = _t2(model, *[env[c] for c in in2])
            else:
                y = _eri(model, *[env[c] for c in in2])
            if y.t:
                acc.iadd(x * y)
        if acc.t:
            res[oasg] = acc
    cache[name] = res
    return res


def _pi_combo(model, fs, name):
    cache = model.__dict__.setdefault("_pi_tables", {})
    hit = cache.get(name)
    if hit is not None:
        return hit
    res = {}
    if name == "t2eri_A":
        p1 = _einsum_table(model, fs, "t2eri_1")
        p2 = _einsum_table(model, fs, "t2eri_2")
        rng = [fs.occ, fs.occ, fs.occ, fs.virt]
        for i, j, k, a in itertools.product(*rng):
            v = Poly()
            v.iadd(p1.get((i, j, k, a), ZERO), Fraction(1, 2))
            v.iadd(p2.get((i, j, k, a), ZERO))
            v.iadd(p2.get((j, i, k, a), ZERO), -1)
            if v.t:
                res[(i, j, k, a)] = v
    else:
        p6 = _einsum_table(model, fs, "t2eri_6")
        p7 = _einsum_table(model, fs, "t2eri_7")
        rng = [fs.occ, fs.virt, fs.virt, fs.virt]
        for i, a, b, c in itertools.product(*rng):
            v = Poly()
            v.iadd(p6.get((i, a, b, c), ZERO), Fraction(-1, 2))
            v.iadd(p7.get((i, a, b, c), ZERO))
            v.iadd(p7.get((i, a, c, b), ZERO), -1)
            if v.t:
                res[(i, a, b, c)] = v
    cache[name] = res
    return res


def _add_pi_handlers(model, fs):
    """tensor symbols t2eri1..7 (used by the once expanded t2eri_A/B) are
    valued by the einsum tables"""
    def make(name):
        def h(m, kind, tname, bks, u, l):
            tab = _einsum_table(m, fs, name)
            return tab.get(tuple(u) + tuple(l), ZERO)
        return h
    for name, tname in TENSOR_NAME.items():
        model.defs[tname] = make(name)


# ------------------------------------------------------ reference tables
def _density_series(fs, ket, bra, nmax, p, q):
    terms = [((("+", p), ("-", q)), ONE)]
    dket = [rspt.apply_terms(terms, st) if st else {} for st in ket]
    num = rspt.series_dot(bra, dket, nmax)
    sser = rspt.series_dot(bra, ket, nmax)
    inv = rspt.binomial_series([ZERO] + sser[1:], -1, nmax)
    return rspt.series_mul(num, inv, nmax)


def _reference(name, full, no, nv):
    """(dict assignment in default-index order -> value, model, proportional)
    or None if this (mode, model) combination is not decided"""
    from . import c02
    d = DEFAULT_IDX[name]
    if name in EINSUM or name in ("t2eri_A", "t2eri_B"):
        if full:
            model, fs, psi, numeric, _ = _model_on(no, nv, 1)
        else:
            model = _model_off(no, nv)
            fs = fock.FockSpace(no, nv)
            _add_pi_handlers(model, fs)
        tab = _einsum_table(model, fs, name) if name in EINSUM else \
            _pi_combo(model, fs, name)
        return tab, model, False
    if name in T_AMPL:
        n, k = T_AMPL[name]
        if full or name == "t4_2":
            model, fs, psi, numeric, _ = _model_on(no, nv, n)
            target = gen.syms(tuple(d))
            t = c02._amp_table(fs, psi[n], tuple(d), target,
                               lambda det, c: c * rspt.class_sign(k))
            return t.data, model, False
        model = _model_off(no, nv)
        fs = fock.FockSpace(no, nv)
        ham = rspt.Hamiltonian(fs, model, "mp")
        st = c02._rhs_state(ham, n, False, False)
        target = gen.syms(tuple(d))

        def tr(det, c):
            return c * ring.inverse(rspt.e0_diff(fs, c02._energy_fn, det)) * \
                rspt.class_sign(k)
        t = c02._amp_table(fs, st, tuple(d), target, tr)
        return t.data, model, False
    if name in DENS:
        n = DENS[name]
        if full:
            model, fs, psi, numeric, _ = _model_on(no, nv, n)
            ket = psi[:n + 1]
        else:
            model = _model_off(no, nv)
            fs = fock.FockSpace(no, nv)
            ket = [rspt.formal_psi(fs, model, m, False) for m in range(n + 1)]
        rng = [fs.occ if gen.space_of(c) == "o" else fs.virt for c in d]
        tab = {}
        for p, q in itertools.product(*rng):
            v = _density_series(fs, ket, ket, n, p, q)[n]
            if v.t:
                tab[(p, q)] = v
        return tab, model, False
    if name in RESID:
        n, k = RESID[name]
        model = _model_off(no, nv, canonical=False)
        fs = fock.FockSpace(no, nv)
        ham = rspt.Hamiltonian(fs, model, "re")
        st = c02._rhs_state(ham, n, False, True)
        target = gen.syms(tuple(d))
        t = c02._amp_table(fs, st, tuple(d), target)
        return t.data, model, True
    raise ValueError(name)


def _smart_equal(a, b, no, nv):
    """first differing entry or None; inequality is established at numeric
    points of the orbital energies where possible (sound), equality by the
    exact test"""
    pts = [_energy_point(no, nv)]
    pts.append({k: v * 3 + Fraction(1, 7) * (i + 1)
                for i, (k, v) in enumerate(sorted(pts[0].items()))})
    for key in sorted(set(a.data) | set(b.data)):
        va = a.data.get(key, ZERO)
        vb = b.data.get(key, ZERO)
        if va.t == vb.t:
            continue
        d = va - vb
        if not d.t:
            continue
        decided = False
        for pt in pts:
            try:
                if ring.substitute(d, pt).t:
                    return (key, va, vb)
            except ZeroDivisionError:
                continue
        if not decided and not ring.equal(va, vb):
            return (key, va, vb)
    return None


def _lib(name):
    from adcgen.intermediates import Intermediates
    return Intermediates().available[name]


def run_case(case):
    if case[0] == "symmetry":
        return _run_symmetry(case)
    _, name, full, vname, idx = case
    itmd = _lib(name)
    lib, err = safe_call(itmd.expand_itmd, idx, True, full)
    if err:
        if vname == "repeated" and ("not valid" in err or "Inputerror" in err
                                    or "ValueError" in err):
            return {"status": "ok", "key": repr(case), "transitions": 1,
                    "outcome": "refused-repeated-index", "nontrivial": False}
        return {"status": "violation", "key": repr(case), "transitions": 1,
                "outcome": "exception", "nontrivial": True,
                "finding": "expand_itmd-exception", "detail": err}
    tnames = tuple(split_idx_string(idx))
    distinct = []
    for n in tnames:
        if n not in distinct:
            distinct.append(n)
    target = gen.syms(tuple(distinct))
    results = []
    for no, nv in _models(_TIER[0])[name]:
        if full and name == "t2_3" and _TIER[0] == "quick" and \
                (no, nv) != (2, 2):
            continue    # the fully expanded t2_3 in (3,3): thorough tier
        if (no, nv) == (4, 4) and name == "t2_3" and full:
            continue    # (4,4): once expanded form only (sees the quadruples)
        key = repr((case, (no, nv)))
        base = {"key": key, "transitions": 1}
        info = (f"{name}.expand_itmd(indices='{idx}', fully_expand={full}) "
                f"model=({no},{nv})\n")
        try:
            ref = _reference(name, full, no, nv)
            tab, model, proportional = ref
            lib_t = evaluate(lib, target, model, expand=True)
        except Unsupported as e:
            results.append(dict(base, status="violation",
                                outcome="unsupported", nontrivial=True,
                                finding="unknown-node-in-definition",
                                detail=info + str(e)))
            continue
        # reference table over the distinct target names
        pos = [distinct.index(n) for n in tnames]
        rng = [list(range(no)) if gen.space_of(n) == "o"
               else list(range(no, no + nv)) for n in distinct]
        data = {}
        for asg in itertools.product(*rng):
            v = tab.get(tuple(asg[p] for p in pos))
            if v is not None and v.t:
                data[asg] = v
        ref_t = Table(target, data)
        if proportional:
            from .c02 import _const_ratio
            c = _const_ratio(lib_t, ref_t)
            if c is None and (lib_t.data or ref_t.data):
                results.append(dict(
                    base, status="violation", outcome="residual:shape",
                    nontrivial=True,
                    finding="residual-definition-differs-from-projected-"
                            "rspt-equation",
                    detail=info + "not a rational multiple of the projected "
                    "equation; " + fmt_diff(tables_equal(lib_t, ref_t))))
                continue
            if c is not None:
                ref_t = Table(target, {k: v * c for k, v in data.items()})
        diff = _smart_equal(lib_t, ref_t, no, nv)
        nontrivial = bool(ref_t.data)
        if diff is not None and not full and name in DENS:
            # once expanded density: arbitrate on-shell
            tab2, model2, _ = _reference(name, True, no, nv)
            lib2 = evaluate(lib, target, model2, expand=True)
            data2 = {}
            for asg in itertools.product(*rng):
                v = tab2.get(tuple(asg[p] for p in pos))
                if v is not None and v.t:
                    data2[asg] = v
            if _smart_equal(lib2, Table(target, data2), no, nv) is None:
                diff = None
        if diff is not None:
            results.append(dict(
                base, status="violation", outcome="value",
                nontrivial=nontrivial, finding=_finding(name, full),
                detail=info + "reference vs definition: " + fmt_diff(
                    (diff[0], diff[2], diff[1]))))
            continue
        results.append(dict(
            base, status="ok", nontrivial=nontrivial,
            outcome=f"{name}:{'full' if full else 'once'}:{vname}:"
            f"({no},{nv}):nz{int(nontrivial)}"))
    return results


def _finding(name, full):
    fam = ("t-amplitude" if name in T_AMPL else "density" if name in DENS
           else "re-residual" if name in RESID else "t2eri")
    return f"{fam}-definition-wrong:{name}:{'full' if full else 'once'}"


def _run_symmetry(case):
    _, name = case
    itmd = _lib(name)
    sym, err = safe_call(lambda: itmd.tensor_symmetry)
    base = {"key": repr(case), "transitions": 2, "nontrivial": True}
    if err:
        return dict(base, status="violation", outcome="exception",
                    finding="tensor_symmetry-exception", detail=err)
    d = DEFAULT_IDX[name]
    lib, err = safe_call(itmd.expand_itmd, None, True, False)
    if err:
        return dict(base, status="violation", outcome="exception",
                    finding="expand_itmd-exception", detail=err)
    no, nv = _models(_TIER[0])[name][0]
    if name in T_AMPL or name in DENS:
        n = T_AMPL[name][0] if name in T_AMPL else DENS[name]
        model = _model_on(no, nv, n)[0]
    elif name in RESID:
        model = _model_off(no, nv, canonical=False)
    else:
        model = _model_off(no, nv)
        _add_pi_handlers(model, fock.FockSpace(no, nv))
    target = gen.syms(tuple(d))
    tab = evaluate(lib, target, model, expand=True)
    bad = []
    n_checked = 0
    for perms, factor in sym.items():
        # perms: tuple of Permutation (pairs of Index) applied one after the
        # other to the index names
        mapping = {s: s for s in target}
        for perm in perms:
            x, y = perm
            mapping = {k: (y if v == x else x if v == y else v)
                       for k, v in mapping.items()}
        # table with permuted axes: value at tau o perm
        pos = [target.index(mapping[s]) for s in target]
        ptab = Table(target, {tuple(k[i] for i in pos): v
                              for k, v in tab.data.items()})
        n_checked += 1
        want = Table(target, {k: v * int(factor) for k, v in
                              tab.data.items()})
        diff = _smart_equal(ptab, want, no, nv)
        if diff is not None:
            bad.append((str(perms), int(factor), diff))
    if bad:
        p, f, diff = bad[0]
        return dict(base, status="violation", outcome="symmetry:value",
                    finding=f"declared-symmetry-does-not-hold:{name}",
                    detail=f"{name}: declared symmetry {p} -> {f} does not "
                    f"hold for the definition: " + fmt_diff(diff))
    return dict(base, status="ok",
                outcome=f"symmetry:{name}:perms{n_checked}:"
                f"nz{int(bool(tab.data))}")
