"""C15  Spin integration yields exactly the requested spin block.

Explored (every element, simplest first):

(A) objects:  `Obj.allowed_spin_blocks` of every known object shape (ERI in
    every occ/virt/general block, Coulomb integral, t-amplitudes of rank
    1..3 (+cc), Kronecker deltas, every tensor of a registered intermediate)
    for every index pattern, and `RegisteredIntermediate.allowed_spin_blocks`
    of every registered intermediate: a block that is not reported must be
    identically zero.
(B) terms of the grammar  prefactor x 1..3 objects  (ERI, Coulomb integrals,
    t-amplitudes, deltas, symbolic orbital-energy denominators, orbital
    energies, tensors of registered intermediates, unknown tensors) x every
    index pattern (set partitions of the slots per space) x target sets
    (Einstein / the same set given explicitly / plus one repeated index / all
    contracted) x EVERY spin string of the target indices x {integrate_spin,
    transform_to_spatial_orbitals(unrestricted, expand_eri),
    (restricted), (restricted, expand_eri)}: the value table of the output at
    (spatial tau, spins) equals the table of the input at the spin orbitals
    (tau, spins); the target indices declared by the output are the
    requested ones.  Plus: chains of three connected objects (<= 12 slots)
    with every explicit target set of size <= 2, two- and three-term sums,
    explicit orbital-energy denominators.
(C) `allowed_spin_blocks(expr, target)` on all inputs of (B): the input table
    restricted to a block that is not reported is zero.

Oracle: vmc.evalexpr on a spin-resolved orbital model (spatial orbitals x
{alpha, beta}) with formal tensor entries; the tensors adcgen knows are zero
outside their spin-conserving blocks (rules written here on orbital numbers,
for registered intermediates by evaluating the registered definition); with
expand_eri the ERI is *defined* by formal symmetric Coulomb integrals;
restricted: every entry is [allowed block] * W(spatial labels).

A mismatch is attributed: the defects of the pinned tree (section DEFECTS) are
modelled as transformations of the input; a result that has exactly the
predicted defective value gets the finding key `defect:<names>`, everything
else `value:<entry point>`.
"""
import itertools
import re

from sympy import S, Add, Mul, Pow, Rational

from adcgen import Expr
from adcgen.indices import Index
from adcgen.intermediates import Intermediates
from adcgen.spatial_orbitals import (integrate_spin,
                                     transform_to_spatial_orbitals,
                                     allowed_spin_blocks)
from adcgen.sympy_objects import (AntiSymmetricTensor, SymmetricTensor,
                                  Amplitude, NonSymmetricTensor,
                                  KroneckerDelta)

from .. import gen, ring
from ..ring import Poly, ZERO, ONE
from ..model import Model, Space
from ..evalexpr import evaluate, Table, Unsupported, kind_of
from .common import space_sizes, safe_call

ID = "C15"
RULE = ("state = (term or two-term sum of the grammar with its index pattern, "
        "target set and mode, spin string of the targets, entry point "
        "[integrate_spin | transform_to_spatial_orbitals x expand_eri x "
        "restricted | allowed_spin_blocks]) resp. (object shape / registered "
        "intermediate, allowed-block query); non-trivial = the input has a "
        "contracted index or two objects that share an index, so that spin "
        "maps of several objects have to be combined or a spin has to be "
        "summed (for block queries: at least one block is excluded)")
ASSUMPTIONS = [
    "spin-resolved model with N spatial orbitals per space = number of index "
    "symbols of that space in the term (valid for every larger space by the "
    "relabelling argument; contracted indices that only sit on Kronecker "
    "deltas are evaluated at N and N+1)",
    "tensors whose spin blocks adcgen does not know (d, f, x, y, D, e, "
    "explicit denominators) are general spin-orbital tensors (all blocks "
    "independent), which is the documented treatment; a mismatch that "
    "disappears when these tensors are made spin-conserving as well is not "
    "reported (outcome ...:ok-spin-conserving-unknown)",
    "restricted: 'alpha and beta tensors coincide' is the model in which every "
    "tensor entry is [allowed spin block] * W(spatial labels), W with the "
    "declared symmetry, e_{p sigma} = e_p; with expand_eri the ERI is defined "
    "by Coulomb integrals (p sigma r sigma|q tau s tau) = (pr|qs)",
    "the registered definition (expand_itmd(fully_expand=False)) is what an "
    "intermediate tensor means; the support of an intermediate is computed "
    "by evaluating it in the spin model",
    "the input is a spin-orbital expression (no index carries a spin)",
]

# --------------------------------------------------------------------------
# shapes: (kind, name, n_upper, n_lower, bra_ket_sym, spaces)
# --------------------------------------------------------------------------
SHAPES = {
    # antisymmetric ERI (real: bra-ket symmetric)
    "V_oovv": ("anti", "V", 2, 2, 1, "oovv"),
    "V_ovov": ("anti", "V", 2, 2, 1, "ovov"),
    "V_oooo": ("anti", "V", 2, 2, 1, "oooo"),
    "V_ooov": ("anti", "V", 2, 2, 1, "ooov"),
    "V_ovvv": ("anti", "V", 2, 2, 1, "ovvv"),
    "V_vvvv": ("anti", "V", 2, 2, 1, "vvvv"),
    "V_gggg": ("anti", "V", 2, 2, 1, "gggg"),
    "V_gogv": ("anti", "V", 2, 2, 1, "gogv"),
    # complex ERI (no bra-ket symmetry): expand_eri is documented to refuse
    "Vc_oovv": ("anti", "V", 2, 2, 0, "oovv"),
    # Coulomb integral (chemist notation)
    "v_ovov": ("sym", "v", 2, 2, 1, "ovov"),
    "v_gggg": ("sym", "v", 2, 2, 1, "gggg"),
    # t-amplitudes
    "t1_2": ("amp", "t1", 2, 2, 0, "vvoo"),
    "t1cc_2": ("amp", "t1cc", 2, 2, 0, "vvoo"),
    "t2_1": ("amp", "t2", 1, 1, 0, "vo"),
    "t2_2": ("amp", "t2", 2, 2, 0, "vvoo"),
    "t2_3": ("amp", "t2", 3, 3, 0, "vvvooo"),
    "t_1": ("amp", "t", 1, 1, 0, "vo"),
    # deltas
    "k_oo": ("delta", "", 1, 1, 0, "oo"),
    "k_vv": ("delta", "", 1, 1, 0, "vv"),
    "k_go": ("delta", "", 1, 1, 0, "go"),
    "k_gg": ("delta", "", 1, 1, 0, "gg"),
    # symbolic denominators / orbital energies
    "D_oovv": ("sym", "D", 2, 2, -1, "oovv"),
    "D_ov": ("sym", "D", 1, 1, -1, "ov"),
    "e_o": ("nonsym", "e", 1, 0, 0, "o"),
    "e_v": ("nonsym", "e", 1, 0, 0, "v"),
    # registered intermediates (tensor objects as built by _build_tensor)
    "p2_oo": ("anti", "p2", 1, 1, 1, "oo"),
    "p2_vv": ("anti", "p2", 1, 1, 1, "vv"),
    "p3_oo": ("anti", "p3", 1, 1, 1, "oo"),
    "p3_ov": ("anti", "p3", 1, 1, 1, "ov"),
    "p3_vv": ("anti", "p3", 1, 1, 1, "vv"),
    "t2eri1": ("anti", "t2eri1", 2, 2, 0, "ooov"),
    "t2eri2": ("nonsym", "t2eri2", 4, 0, 0, "ooov"),
    "t2eri3": ("anti", "t2eri3", 2, 2, 0, "oovv"),
    "t2eri4": ("nonsym", "t2eri4", 4, 0, 0, "oovv"),
    "t2eri5": ("anti", "t2eri5", 2, 2, 0, "oovv"),
    "t2eri6": ("anti", "t2eri6", 2, 2, 0, "ovvv"),
    "t2eri7": ("nonsym", "t2eri7", 4, 0, 0, "ovvv"),
    "t2eriA": ("anti", "t2eriA", 2, 2, 0, "ooov"),
    "t2eriB": ("anti", "t2eriB", 2, 2, 0, "ovvv"),
    "t2sq": ("anti", "t2sq", 2, 2, 1, "ovov"),
    # tensors adcgen knows nothing about
    "d_ov": ("anti", "d", 1, 1, 0, "ov"),
    "d_oo": ("anti", "d", 1, 1, 0, "oo"),
    "d_vv": ("anti", "d", 1, 1, 0, "vv"),
    "f_ov": ("anti", "f", 1, 1, 1, "ov"),
    "f_oo": ("anti", "f", 1, 1, 1, "oo"),
    "x_ov": ("nonsym", "x", 2, 0, 0, "ov"),
    "x_o": ("nonsym", "x", 1, 0, 0, "o"),
    "y_oovv": ("anti", "y", 2, 2, 0, "oovv"),
    "X_2": ("amp", "X", 2, 2, 0, "vvoo"),
}

# registered intermediate behind a tensor name / block (own table; adcgen
# derives it from Obj.longname)
_T_AMPLITUDE = re.compile(r"^t\d*(cc)?$")
_DENSITY = re.compile(r"^p(\d+)$")


def itmd_of(kind, name, spaces):
    """name of the registered intermediate a tensor object stands for, or
    None.  `spaces` = one letter per slot (upper + lower)"""
    m = _DENSITY.match(name)
    if m and kind == "anti":
        cand = f"p0_{m.group(1)}_{spaces}"
    elif name.startswith("t2eri") and len(name) > 5:
        cand = f"t2eri_{name[5:]}"
    elif name == "t2sq":
        cand = "t2sq"
    else:
        return None
    return cand if cand in Intermediates().available else None


def build_obj(shape_id, names, exponent=1):
    kind, name, nu, nl, bks, _ = SHAPES[shape_id]
    idx = gen.syms(names)
    if kind == "delta":
        o = KroneckerDelta(idx[0], idx[1])
    elif kind == "nonsym":
        o = NonSymmetricTensor(name, idx)
    elif kind == "anti":
        o = AntiSymmetricTensor(name, idx[:nu], idx[nu:], bks)
    elif kind == "amp":
        o = Amplitude(name, idx[:nu], idx[nu:], bks)
    else:
        o = SymmetricTensor(name, idx[:nu], idx[nu:], bks)
    if exponent != 1:
        o = Pow(o, exponent)
    return o


def build_term(desc):
    pref, objs = desc
    res = gen.PREFS[pref]
    for shape_id, ex, names in objs:
        res = res * build_obj(shape_id, names, ex)
    return res


def _slot_spaces(shape_ids):
    out = []
    for s in shape_ids:
        out.extend(SHAPES[s][5])
    return out


def _terms(shape_ids, pref="1", exponents=None):
    exponents = exponents or [1] * len(shape_ids)
    sp = _slot_spaces(shape_ids)
    for names in gen.index_patterns(sp):
        parts, k = [], 0
        for s in shape_ids:
            n = len(SHAPES[s][5])
            parts.append(tuple(names[k:k + n]))
            k += n
        yield (pref, tuple(zip(shape_ids, exponents, parts)))


# --------------------------------------------------------------------------
# the spin model
# --------------------------------------------------------------------------
def _is_t_amplitude(name):
    return bool(_T_AMPLITUDE.match(name))


class SpinModel(Model):
    """Valuation on spatial orbitals x {alpha, beta}.

    restricted = False: one indeterminate per symmetry orbit of spin-orbital
        entries.
    restricted = True:  entry = [allowed block] * W(spatial labels).
    coulomb = True:     the ERI 'V' is defined by the Coulomb integrals 'v'.
    conserving_unknown: tensors unknown to adcgen with as many upper as lower
        indices vanish outside spin-conserving blocks as well (only used as
        the second opinion on a mismatch)."""

    def __init__(self, space, restricted=False, coulomb=False,
                 conserving_unknown=False):
        Model.__init__(self, space)
        self.restricted = restricted
        self.coulomb = coulomb
        self.conserving_unknown = conserving_unknown
        sp = space
        self._lab = sp.orb_spatial if restricted else list(range(sp.n))

    def _free(self, kind, name, bks, u, l):
        lab = self._lab
        return self.free(kind, name, bks, tuple(lab[o] for o in u),
                         tuple(lab[o] for o in l))

    def value(self, kind, name, bks, u, l):
        key = (kind, name, bks, u, l)
        v = self._cache.get(key)
        if v is None:
            v = self._value(kind, name, bks, u, l)
            self._cache[key] = v
        return v

    def _value(self, kind, name, bks, u, l):
        sp = self.space
        su = [sp.orb_spin[o] for o in u]
        sl = [sp.orb_spin[o] for o in l]
        if kind == "nonsym":
            if name == "e" and len(u) == 1:
                return ring.var(f"e{self._lab[u[0]]}")
            if name == _ALPHA_DELTA:
                return ONE if u[0] == u[1] and su[0] == "a" else ZERO
            it = itmd_of(kind, name, "".join(sp.orb_space[o] for o in u))
            if it is not None and "".join(su) not in support(it):
                return ZERO
            return self._free(kind, name, bks, u, l)
        if name == "D" and kind == "sym":
            # symbolic orbital-energy denominator: a formal tensor with the
            # declared symmetry (symmetric, bra-ket antisymmetric) and no
            # spin restriction; spin integration may not use more than that
            return self._free(kind, name, bks, u, l)
        if name == "V" and kind == "anti" and len(u) == 2 and len(l) == 2:
            if sorted(su) != sorted(sl):
                return ZERO
            if not self.coulomb:
                return self._free(kind, name, bks, u, l)
            p, q = u
            r, s = l
            res = Poly()
            if su[0] == sl[0] and su[1] == sl[1]:
                res.iadd(self.value("sym", "v", 1, (p, r), (q, s)))
            if su[0] == sl[1] and su[1] == sl[0]:
                res.iadd(self.value("sym", "v", 1, (p, s), (q, r)), -1)
            return res
        if name == "v" and kind == "sym" and len(u) == 2 and len(l) == 2:
            if su[0] != su[1] or sl[0] != sl[1]:
                return ZERO
            return self._free(kind, name, 1, u, l)
        if kind == "amp" and _is_t_amplitude(name) and len(u) == len(l):
            if su.count("a") != sl.count("a"):
                return ZERO
            return self._free(kind, name, bks, u, l)
        if kind == "anti":
            blk = _itmd_block(sp, name, bks, u, l)
            if blk is not None:
                it, spins = blk
                if spins not in support(it):
                    return ZERO
                return self._free(kind, name, bks, u, l)
        if self.conserving_unknown and len(u) == len(l) and \
                su.count("a") != sl.count("a"):
            return ZERO
        return self._free(kind, name, bks, u, l)


def _itmd_block(sp, name, bks, u, l):
    """(intermediate name, spin string in the order of its default indices)
    for the entry (u, l) of an antisymmetric tensor, or None if the tensor is
    not the tensor of a registered intermediate"""
    if not (_DENSITY.match(name) or name.startswith("t2eri")
            or name == "t2sq"):
        return None
    arrangements = [(u, l)]
    if bks and len(u) == len(l):
        arrangements.append((l, u))
    for uu, ll in arrangements:
        for pu in itertools.permutations(uu):
            for pl in itertools.permutations(ll):
                spaces = "".join(sp.orb_space[o] for o in pu + pl)
                it = itmd_of("anti", name, spaces)
                if it is None:
                    continue
                if _default_spaces(it) != spaces:
                    continue
                return it, "".join(sp.orb_spin[o] for o in pu + pl)
    return None


_DEFAULT_SPACES = {}


def _default_spaces(it):
    r = _DEFAULT_SPACES.get(it)
    if r is None:
        r = "".join(gen.space_of(n) for n in
                    Intermediates().available[it].default_idx)
        _DEFAULT_SPACES[it] = r
    return r


_ALPHA_DELTA = "kdAlphaOnly"
_MODELS = {}


def model(no, nv, restricted=False, coulomb=False, conserving_unknown=False):
    key = (no, nv, restricted, coulomb, conserving_unknown)
    m = _MODELS.get(key)
    if m is None:
        m = SpinModel(Space(no, nv, spin=True), restricted, coulomb,
                      conserving_unknown)
        _MODELS[key] = m
    return m


# --------------------------------------------------------------------------
# support (non-vanishing spin blocks) of the registered intermediates, from
# their registered definition evaluated in the spin model
# --------------------------------------------------------------------------
_SUPPORT = {}


def support(it):
    """set of spin strings (order of the default indices) on which the
    registered definition of `it` does not vanish identically"""
    r = _SUPPORT.get(it)
    if r is None:
        r = _SUPPORT[it] = _compute_support(it)
    return r


def _compute_support(it, full=True):
    itmd = Intermediates().available[it]
    names = tuple(itmd.default_idx)
    expr = itmd.expand_itmd(indices=names, fully_expand=False)
    sym = S(expr.sympy).expand()
    targets = gen.syms(names)
    if full:
        # every index symbol of a term gets its own spatial orbital
        no = nv = 1
        for t in (sym.args if isinstance(sym, Add) else (sym,)):
            idx = t.atoms(Index)
            no = max(no, sum(1 for s in idx if s.space[0] == "o"))
            nv = max(nv, sum(1 for s in idx if s.space[0] == "v"))
    else:
        no = max(2, sum(1 for n in names if gen.space_of(n) == "o"))
        nv = max(2, sum(1 for n in names if gen.space_of(n) == "v"))
    m = model(no, nv)
    tab = evaluate(sym, targets, m)
    spin = m.space.orb_spin
    return frozenset("".join(spin[o] for o in k) for k in tab.data)


# intermediates whose definition is too large for the 'one orbital per index
# symbol' model: evaluated with N = max(2, number of target indices per
# space) (sound for "not reported => zero"; these are t-amplitudes, whose
# objects never consult the intermediate)
_SMALL_SUPPORT = ("t2_2", "t3_2", "t1_3", "t2_3", "t4_2")


def itmd_support(it, tier):
    """support used for the direct query of an intermediate (part A)"""
    if it in _SMALL_SUPPORT:
        if it == "t3_2" and tier == "quick":
            # N = 2: blocks with three equal spins in one space are not seen
            return _compute_support_n(it, 2, 2)
        return _compute_support(it, full=False)
    return support(it)


def _compute_support_n(it, no, nv):
    itmd = Intermediates().available[it]
    names = tuple(itmd.default_idx)
    expr = itmd.expand_itmd(indices=names, fully_expand=False)
    m = model(no, nv)
    tab = evaluate(S(expr.sympy).expand(), gen.syms(names), m)
    spin = m.space.orb_spin
    return frozenset("".join(spin[o] for o in k) for k in tab.data)


# --------------------------------------------------------------------------
# own classification of the objects of a term
# --------------------------------------------------------------------------
def _factors(term):
    """(base object, exponent) of every indexed factor of a sympy product"""
    out = []
    for f in (term.args if isinstance(term, Mul) else (term,)):
        if f.is_number:
            continue
        if isinstance(f, Pow):
            out.append((f.args[0], f.args[1]))
        else:
            out.append((f, S.One))
    return out


def known_blocks(obj):
    """True if the spin blocks of the object are known to adcgen according
    to its documentation (ERI, Coulomb, t-amplitude, delta, tensor of a
    registered intermediate), decided by the rules of this file"""
    if isinstance(obj, KroneckerDelta):
        return True
    k = kind_of(obj)
    if k is None:
        return False
    if k == "nonsym":
        spaces = "".join(s.space[0] for s in obj.idx)
        return itmd_of(k, obj.name, spaces) is not None
    nu, nl = len(obj.upper), len(obj.lower)
    if k == "anti" and obj.name == "V" and nu == 2 and nl == 2:
        return True
    if k == "sym" and obj.name == "v" and nu == 2 and nl == 2:
        return True
    if k == "amp" and _is_t_amplitude(obj.name):
        return True
    if k == "anti":
        spaces = "".join(s.space[0] for s in tuple(obj.upper)
                         + tuple(obj.lower))
        return itmd_of(k, obj.name, spaces) is not None
    return False


def _obj_indices(obj):
    if isinstance(obj, KroneckerDelta):
        return list(obj.args)
    k = kind_of(obj)
    if k == "nonsym":
        return list(obj.idx)
    if k is not None:
        return list(obj.upper) + list(obj.lower)
    return sorted(obj.atoms(Index), key=str)


def classify(term):
    """structure of a sympy product: dict with
      known / unknown : lists of base objects
      repeated_on_known : a known object carries an index twice
      open : an index sits on no known object
      polynom : a factor is a sum (explicit denominator)
      unknown_nn : an unknown tensor with as many upper as lower indices"""
    known, unknown = [], []
    poly = False
    for b, ex in _factors(term):
        if isinstance(b, Add):
            poly = True
            unknown.append(b)
        elif known_blocks(b):
            known.append(b)
        elif isinstance(b, Index) or not b.atoms(Index):
            continue
        else:
            unknown.append(b)
    rep = any(len(set(_obj_indices(o))) < len(_obj_indices(o)) for o in known)
    on_known = set()
    for o in known:
        on_known.update(_obj_indices(o))
    all_idx = term.atoms(Index)
    unn = any(kind_of(o) in ("anti", "sym", "amp") and o.name != "D" and
              len(o.upper) == len(o.lower) for o in unknown
              if not isinstance(o, Add))
    return {"known": known, "unknown": unknown, "repeated_on_known": rep,
            "open": bool(all_idx - on_known), "polynom": poly,
            "unknown_nn": unn}


# --------------------------------------------------------------------------
# tables
# --------------------------------------------------------------------------
def _slice(table, spins, sp):
    """entries of a table over spin orbitals whose k-th orbital has spin
    spins[k]"""
    spin = sp.orb_spin
    return {k: v for k, v in table.data.items()
            if all(spin[o] == s for o, s in zip(k, spins))}


def _to_spin(key, spins, sp, cache={}):
    """orbital tuple with the spatial parts of `key` and the given spins"""
    out = []
    for o, s in zip(key, spins):
        if sp.orb_spin[o] == s:
            out.append(o)
        else:
            # partner orbital: same spatial orbital, other spin (orbitals are
            # enumerated alpha, beta, alpha, beta, ...)
            p = o + 1 if sp.orb_spin[o] == "a" else o - 1
            assert sp.orb_spatial[p] == sp.orb_spatial[o] and \
                sp.orb_spin[p] == s
            out.append(p)
    return tuple(out)


def _dict_diff(ref, got):
    for k in set(ref) | set(got):
        a = ref.get(k, ZERO)
        b = got.get(k, ZERO)
        if not ring.equal(a, b):
            return k, a, b
    return None


def _fmt(diff, sp):
    k, a, b = diff
    lab = tuple(sp.label[o] for o in k)
    return f"at target orbitals {lab}: expected {a!r}, adcgen's result gives {b!r}"


def _delta_only(term, target):
    """number of contracted indices that sit on Kronecker deltas only"""
    on_other = set()
    on_delta = set()
    for b, ex in _factors(term):
        if isinstance(b, KroneckerDelta):
            on_delta.update(b.args)
        else:
            on_other.update(b.atoms(Index))
    return len([s for s in on_delta if s not in on_other and s not in target])


def _sizes(sym, target):
    names = set()
    sets = []
    for t in (sym.args if isinstance(sym, Add) else (sym,)):
        sets.append({str(s) for s in t.atoms(Index)} |
                    {str(s) for s in target})
    no, nv = space_sizes(sets)
    extra = max((_delta_only(t, target)
                 for t in (sym.args if isinstance(sym, Add) else (sym,))),
                default=0)
    return [(no + d, nv + d) for d in range(0, (1 if extra else 0) + 1)]


MODES = (("is", None, None), ("tso", False, True), ("tso", True, False),
         ("tso", True, True))


def _mode_name(mode):
    api, restricted, eri = mode
    if api == "is":
        return "integrate_spin"
    return "transform(" + ("restricted" if restricted else "unrestricted") + \
        ("+eri" if eri else "") + ")"


class _Oracle:
    """tables of the input expression over the spin orbitals, lazily per
    (model variant, size)"""

    def __init__(self, sym, target):
        self.sym = sym
        self.target = tuple(target)
        self.tabs = {}

    def table(self, size, restricted, coulomb, conserving=False):
        key = (size, restricted, coulomb, conserving)
        t = self.tabs.get(key)
        if t is None:
            m = model(size[0], size[1], restricted, coulomb, conserving)
            t = self.tabs[key] = (evaluate(self.sym, self.target, m), m)
        return t


# --------------------------------------------------------------------------
# attribution of a mismatch to defects of the unchanged tree: each defect is
# modelled as a transformation of the INPUT; a mismatch is attributed to the
# smallest set of defects whose prediction equals adcgen's output by value
# --------------------------------------------------------------------------
DEFECTS = {
    "unknown-only-term-dropped":
        "a term without any object of known spin blocks is dropped",
    "unassigned-contracted-index-beta-twice":
        "a contracted index that sits on no object of known spin blocks is "
        "given beta spin in both variants (weight 2, alpha part missing)",
    "restricted-beta-delta-vanishes":
        "restricted: a term whose Kronecker delta carries beta indices "
        "vanishes while beta is renamed to alpha one index after the other",
}


def _predict(sym, target, defects):
    out = S.Zero
    changed = False
    for t in Add.make_args(sym):
        if t.is_number:
            out += t
            continue
        c = classify(t)
        if "unknown-only-term-dropped" in defects and not c["known"]:
            changed = True
            continue
        if "unassigned-contracted-index-beta-twice" in defects and c["known"]:
            on_known = set()
            for o in c["known"]:
                on_known.update(_obj_indices(o))
            missing = [x for x in t.atoms(Index)
                       if x not in on_known and x not in target]
            if missing:
                changed = True
                t = t.xreplace({x: gen.sym(f"{x.name}_b") for x in missing}) \
                    * 2 ** len(missing)
        if "restricted-beta-delta-vanishes" in defects and \
                t.has(KroneckerDelta):
            changed = True
            t = t.replace(lambda o: isinstance(o, KroneckerDelta),
                          lambda o: NonSymmetricTensor(_ALPHA_DELTA, o.args))
        out += t
    return out, changed


def _explain(sym, target, osym, names, spins, restricted, eri, sizes,
             unknown_nn):
    cands = ["unknown-only-term-dropped",
             "unassigned-contracted-index-beta-twice"]
    if restricted:
        cands.append("restricted-beta-delta-vanishes")
    for r in range(1, len(cands) + 1):
        for sub in itertools.combinations(cands, r):
            pred, changed = _predict(sym, target, sub)
            if not changed:
                continue
            # every member has to be active
            if any(not _predict(sym, target, (d,))[1] for d in sub):
                continue
            try:
                bad, _ = _compare(_Oracle(pred, target), osym, names, spins,
                                  restricted, eri, sizes, unknown_nn)
            except (Unsupported, NotImplementedError, KeyError):
                continue
            if bad is None:
                return sub
    return None


def _has_complex_eri(sym):
    for o in sym.atoms(AntiSymmetricTensor):
        if o.name == "V" and kind_of(o) == "anti" and int(o.bra_ket_sym) != 1:
            return True
    return False


def _compare(oracle, out_sym, names, spins, restricted, coulomb, sizes,
             unknown_nn):
    """None if the output has the value of the input on the block, else a
    text.  Second value: True if equality only holds with spin-conserving
    unknown tensors."""
    out_spins = "a" * len(spins) if restricted else spins
    rt = tuple(gen.sym(f"{n}_{s}") for n, s in zip(names, out_spins))
    weak = False
    for size in sizes:
        for conserving in (False, True):
            if conserving and not unknown_nn:
                break
            tab, m = oracle.table(size, restricted, coulomb, conserving)
            sp = m.space
            ref = _slice(tab, spins, sp)
            got_t = evaluate(out_sym, rt, m)
            if restricted:
                got = {_to_spin(k, spins, sp): v
                       for k, v in got_t.data.items()}
            else:
                got = got_t.data
            diff = _dict_diff(ref, got)
            if diff is None:
                weak = weak or conserving
                break
            if conserving or not unknown_nn:
                return (f"model N_occ={size[0]} N_virt={size[1]} (spatial), "
                        + _fmt(diff, sp)), False
    return None, weak


# --------------------------------------------------------------------------
# enumeration
# --------------------------------------------------------------------------
KNOWN_SHAPES = ["V_oovv", "V_ovov", "V_oooo", "V_ooov", "V_ovvv", "V_vvvv",
                "V_gggg", "V_gogv", "Vc_oovv", "v_ovov", "v_gggg", "t1_2",
                "t1cc_2", "t2_1", "t2_2", "t2_3", "t_1", "k_oo", "k_vv",
                "k_go", "k_gg", "p2_oo", "p2_vv", "p3_oo", "p3_ov", "p3_vv",
                "t2eri1", "t2eri2", "t2eri3", "t2eri4", "t2eri5", "t2eri6",
                "t2eri7", "t2eriA", "t2eriB", "t2sq"]

PAIR_POOL = {
    "quick": ["V_oovv", "V_ovov", "V_ooov", "t1_2", "t2_1", "k_oo", "D_ov",
              "p2_oo", "t2eri4", "t2sq", "d_ov", "d_oo", "x_ov", "e_v"],
    "thorough": ["V_oovv", "V_ovov", "V_oooo", "V_ooov", "V_ovvv", "V_vvvv",
                 "Vc_oovv", "V_gogv", "t1_2", "t1cc_2", "t2_1", "k_oo",
                 "k_vv", "k_go", "D_oovv", "D_ov", "e_o", "e_v", "p2_oo",
                 "p2_vv", "p3_ov", "t2eri1", "t2eri3", "t2eri4", "t2eri6",
                 "t2eri7", "t2eriA", "t2sq", "d_ov", "d_oo", "d_vv", "f_ov",
                 "x_ov", "x_o", "y_oovv", "X_2"],
}
TRIPLE_POOL = {
    "quick": ["V_oovv", "t2_1", "k_oo", "d_ov", "x_o"],
    "thorough": ["V_oovv", "V_ovov", "t1_2", "t2_1", "k_oo", "k_vv",
                 "D_ov", "p2_oo", "d_ov", "d_oo", "x_o"],
}
MAX_SLOTS = {"quick": (8, 6), "thorough": (8, 8)}   # pairs, triples
MAX_MULT = {"quick": 2, "thorough": 2}              # pairs and triples
MAX_SYMBOLS = {"quick": 3, "thorough": 4}           # per space and term
MAX_TARGETS = {"quick": 4, "thorough": 4}           # (single objects: 6)
# an index on three objects (hyper-contraction): small pool, <= 6 slots
HYPER_POOL = ["t2_1", "d_ov", "x_o", "x_ov", "k_oo"]
# shapes with four general indices: 16 spin orbitals per index already in the
# smallest adequate model; only their block tables are checked (part A)
OBJ_ONLY = ("V_gggg", "v_gggg")
EXPONENT_SINGLES = [("V_oovv", 2), ("t1_2", 2), ("d_ov", 2), ("V_ovov", 2)]


def bounds(tier):
    return {"single_shapes": sorted(SHAPES), "pair_pool": PAIR_POOL[tier],
            "triple_pool": TRIPLE_POOL[tier],
            "max_slots(pairs,triples)": MAX_SLOTS[tier],
            "max_index_multiplicity": MAX_MULT[tier],
            "max_index_symbols_per_space": MAX_SYMBOLS[tier],
            "max_target_indices": MAX_TARGETS[tier],
            "max_target_indices_single_object": 6,
            "hyper_contraction_pool(mult<=3,slots<=6)": HYPER_POOL,
            "target_modes": ["Einstein", "explicit(same)",
                             "explicit(+1 repeated index)",
                             "explicit(all contracted)"],
            "spin_strings": "all 2^|T|",
            "entry_points": [_mode_name(m) for m in MODES]
            + ["allowed_spin_blocks"],
            "chain_shapes(3 connected objects, every index <= twice, explicit "
            "targets = every subset of size <= 2 of the indices, "
            "integrate_spin + allowed_spin_blocks)": CHAIN_SHAPES[tier],
            "sums": len(_sum_inputs(tier))}


def _ok_term(desc, tier, n_obj, max_mult=None):
    cnt = gen.term_indices(desc)
    if n_obj > 1 and max(cnt.values()) > (max_mult or MAX_MULT[tier]):
        return False
    per = {}
    for n in cnt:
        per[gen.space_of(n)] = per.get(gen.space_of(n), 0) + 1
    g = per.get("g", 0)
    if per.get("o", 0) + g > MAX_SYMBOLS[tier] or \
            per.get("v", 0) + g > MAX_SYMBOLS[tier]:
        return False
    # a general index ranges over all orbitals: at most three symbols per
    # space together with general indices
    if g and (per.get("o", 0) + g > 3 or per.get("v", 0) + g > 3):
        return False
    return True


def _term_cases(tier):
    out = []
    seen = set()

    def add(shapes, pref, exps=None, max_mult=None):
        for d in _terms(shapes, pref, exps):
            if not _ok_term(d, tier, len(shapes), max_mult):
                continue
            t = build_term(d)
            if t is S.Zero or t.is_number:
                continue
            if t in seen:
                continue
            seen.add(t)
            out.append(d)
    for s in SHAPES:
        if s in OBJ_ONLY:
            continue
        add((s,), "1")
    for s, ex in EXPONENT_SINGLES:
        add((s,), "-1/2", [ex])
    pool = PAIR_POOL[tier]
    for a, b in itertools.combinations_with_replacement(pool, 2):
        if len(_slot_spaces((a, b))) > MAX_SLOTS[tier][0]:
            continue
        add((a, b), "-1")
    pool = TRIPLE_POOL[tier]
    for sh in itertools.combinations_with_replacement(pool, 3):
        if len(_slot_spaces(sh)) > MAX_SLOTS[tier][1]:
            continue
        add(sh, "2")
    for sh in itertools.combinations_with_replacement(HYPER_POOL, 3):
        if len(_slot_spaces(sh)) <= 6:
            add(sh, "-1/2", max_mult=3)
    return out


# three connected objects with up to 12 slots and EXPLICIT target sets that
# are arbitrary subsets (size <= 2) of the indices of the term - indices that
# occur once may be contracted, indices that occur twice may be targets.
# These are the inputs on which the search for a consistent spin assignment
# (allowed_spin_blocks / _has_valid_combination) has to back-track.
CHAIN_SHAPES = {
    "quick": [("V_oovv", "t1_2", "p2_oo")],
    "thorough": [("V_oovv", "t1_2", "p2_oo"), ("t1_2", "t1_2", "p2_oo"),
                 ("V_oovv", "t1_2", "t2_1"), ("V_ovov", "t1_2", "t2_1"),
                 ("V_oovv", "t1_2", "t1_2"), ("V_ovov", "t1_2", "t1_2"),
                 ("V_oovv", "V_oovv", "t1_2")],
}


def _connected(desc):
    objs = [set(o[2]) for o in desc[1]]
    todo, seen = [0], {0}
    while todo:
        x = todo.pop()
        for y in range(len(objs)):
            if y not in seen and objs[x] & objs[y]:
                seen.add(y)
                todo.append(y)
    return len(seen) == len(objs)


def _chain_cases(tier):
    out = []
    for sh in CHAIN_SHAPES[tier]:
        seen = set()
        for d in _terms(sh, "1"):
            cnt = gen.term_indices(d)
            if max(cnt.values()) > 2 or not _connected(d):
                continue
            if not _ok_term(d, "quick", 3):      # <= 3 symbols per space
                continue
            t = build_term(d)
            if t is S.Zero:
                continue
            k = -t if t.could_extract_minus_sign() else t
            if k in seen:
                continue
            seen.add(k)
            names = sorted(cnt, key=gen.name_key)
            once = tuple(n for n in names if cnt[n] == 1)
            if len(once) <= 4:
                out.append(("term", d, "E", once))
            for r in (0, 1, 2):
                for tg in itertools.combinations(names, r):
                    if tg != once:
                        out.append(("chain", d, tg))
    return out


def _target_modes(desc, tier):
    """list of (mode, target names)"""
    term = build_term(desc)
    ein = gen.sympy_einstein_target(term)
    cnt = gen.sympy_index_counts(term)
    rep = sorted((str(s) for s, c in cnt.items() if c > 1), key=gen.name_key)
    modes = [("E", ein), ("X", ein)]
    for n in rep:
        modes.append(("X", tuple(sorted(ein + (n,), key=gen.name_key))))
    if ein:
        modes.append(("X", ()))
    nmax = 6 if len(desc[1]) == 1 else MAX_TARGETS[tier]
    if len(desc[1]) == 3 and tier == "thorough":
        # three objects: the explicit copy of the Einstein set is left out
        modes = [modes[0]] + modes[2:]
    return [(m, t) for m, t in modes if len(t) <= nmax]


def generate(tier):
    out = []
    for s in KNOWN_SHAPES + ["d_ov", "x_ov", "D_ov", "e_o"]:
        out.append(("obj", s))
    for it in Intermediates().available:
        if it == "t4_2":
            continue
        out.append(("itmd", it, tier))
    for d in _term_cases(tier):
        for m, t in _target_modes(d, tier):
            out.append(("term", d, m, t))
    out.extend(_chain_cases(tier))
    for k in range(len(_sum_inputs(tier))):
        out.append(("sum", k, tier))
    # the supports of the intermediates used as objects are computed once in
    # the parent (forked workers inherit them)
    for it in Intermediates().available:
        if it not in _SMALL_SUPPORT and "residual" not in it:
            support(it)
    return out


def describe(case):
    if case[0] == "chain":
        return {"part": "chain", "term": str(build_term(case[1])),
                "targets": case[2], "explicit": True}
    if case[0] == "term":
        return {"part": "term", "term": str(build_term(case[1])),
                "targets": case[3], "explicit": case[2] == "X"}
    if case[0] == "sum":
        return {"part": "sum", "expr": str(_sum_inputs(case[2])[case[1]][0]),
                "targets": _sum_inputs(case[2])[case[1]][1]}
    return {"part": case[0], "what": case[1]}


# --------------------------------------------------------------------------
# two-term sums
# --------------------------------------------------------------------------
def _sum_inputs(tier):
    def T(*objs, pref="1"):
        return build_term((pref, tuple((s, 1, tuple(n)) for s, n in objs)))
    fam = {
        ("i", "a"): [
            T(("t2_1", "ai")), T(("d_ov", "ia")), T(("f_ov", "ia")),
            T(("t1_2", "abij"), ("d_ov", "jb")),
            T(("t1_2", "bcij"), ("V_ovvv", "jabc"), pref="1/2"),
            T(("p2_oo", "ij"), ("t2_1", "aj")),
            T(("V_ovov", "jaib"), ("t2_1", "bj")),
            T(("x_ov", "ia")),
            T(("t2sq", "iajb"), ("d_ov", "jb")),
            T(("k_oo", "ij"), ("t2_1", "aj")),
        ],
        (): [
            T(("V_oovv", "ijab"), ("t1_2", "abij"), pref="1/4"),
            T(("d_ov", "ia"), ("t2_1", "ai")),
            T(("p2_oo", "ij"), ("k_oo", "ij")),
            T(("V_oovv", "ijab"), ("t2_1", "ai"), ("t2_1", "bj")),
            T(("d_oo", "ij"), ("d_oo", "ij")),
            T(("p2_oo", "ij"), ("d_oo", "ij")),
        ],
        ("i", "j", "a", "b"): [
            T(("t1_2", "abij")), T(("V_oovv", "ijab")),
            T(("t2_1", "ai"), ("t2_1", "bj")),
            T(("t2eri4", "ijab")), T(("V_oovv", "ijab"), ("D_oovv", "ijab")),
            T(("t1_2", "acik"), ("V_ovov", "kbjc")),
            T(("y_oovv", "ijab")),
            T(("t2_1", "ai"), ("d_ov", "jb")),
        ],
        ("i", "j"): [
            T(("p2_oo", "ij")), T(("k_oo", "ij")), T(("d_oo", "ij")),
            T(("t2_1", "ai"), ("d_ov", "ja")),
            T(("V_ooov", "ikja"), ("t2_1", "ak")),
        ],
    }
    out = []
    for tg, terms in fam.items():
        if tier == "quick":
            terms = terms[:6]
        for a, b in itertools.combinations(terms, 2):
            out.append((a - 2 * b, tg))
        if len(terms) >= 3:
            out.append((terms[0] + terms[1] + terms[2], tg))
    # explicit orbital-energy denominators (adcgen's 'polynoms'; the library
    # documents that simplifying several such terms is not implemented)
    def e(n):
        return NonSymmetricTensor("e", (gen.sym(n),))
    d2 = e("a") + e("b") - e("i") - e("j")
    d1 = e("i") - e("a")
    out += [
        (T(("V_oovv", "ijab")) / d2, ("i", "j", "a", "b")),
        (T(("t1_2", "bcij"), ("V_ovvv", "jabc"), pref="1/2") / d1, ("i", "a")),
        (T(("t1_2", "abjk"), ("V_ooov", "jkia"), pref="1/2") / d1
         + T(("t1_2", "bcij"), ("V_ovvv", "jabc"), pref="1/2") / d1,
         ("i", "a")),
        (T(("V_oovv", "ijab"), ("t1_2", "abij")) / d2, ()),
        (T(("V_oovv", "ijab"), ("t1_2", "abij")) / d1, ()),
        (T(("x_ov", "ia")) / d1, ("i", "a")),
        (T(("t2_1", "ai"), ("d_ov", "jb")) / d2, ("i", "j", "a", "b")),
        (T(("t2_1", "ai")) * e("a") / d1 ** 2, ("i", "a")),
    ]
    return out


# --------------------------------------------------------------------------
# running
# --------------------------------------------------------------------------
def _head(err):
    return err.split("\n")[0]


def _classify_all(sym):
    cl = [classify(t) for t in (sym.args if isinstance(sym, Add) else (sym,))
          if not t.is_number]
    return {k: any(c[k] for c in cl) for k in
            ("repeated_on_known", "open", "polynom", "unknown_nn")} | \
        {"has_unknown": any(c["unknown"] for c in cl),
         "has_known": all(c["known"] for c in cl) if cl else False}


def _einstein_names(term):
    return set(gen.sympy_einstein_target(term))


def _check_expr(sym, names, explicit, key0, nontrivial, real, modes=None):
    """all spin strings x entry points + allowed_spin_blocks for one input
    expression with target names `names`"""
    results = []
    target = gen.syms(names)
    kw = {"real": True} if real else {}
    if explicit:
        kw["target_idx"] = list(target)
    expr0 = Expr(sym, **kw)
    cls = _classify_all(sym)
    oracle = _Oracle(sym, target)
    sizes = _sizes(sym, target)
    tstr = "".join(names)
    complex_eri = _has_complex_eri(sym)
    info0 = (f"input: {sym}   target indices {names} "
             f"({'explicit' if explicit else 'Einstein'}), real={real}\n")
    for spins in itertools.product("ab", repeat=len(names)):
        spins = "".join(spins)
        for mode in (modes or MODES):
            api, restricted, eri = mode
            mname = _mode_name(mode)
            key = repr((key0, spins, mname))
            base = {"key": key, "transitions": 1, "nontrivial": nontrivial}
            if api == "is":
                out, err = safe_call(integrate_spin, expr0.copy(), tstr, spins)
                restricted, eri = False, False
            else:
                out, err = safe_call(transform_to_spatial_orbitals,
                                     expr0.copy(), tstr, spins, restricted,
                                     eri)
            info = info0 + f"{mname} with target spins '{spins}'\n"
            if err:
                h = _head(err)
                if h.startswith("NotImplementedError") and \
                        "real orbital basis" in h and eri and complex_eri:
                    results.append(dict(base, status="ok", nontrivial=False,
                                        outcome=f"{mname}:refused-complex-eri"))
                elif h.startswith("NotImplementedError") and cls["polynom"]:
                    results.append(dict(base, status="ok", nontrivial=False,
                                        outcome=f"{mname}:refused-polynom"))
                elif h.startswith("ValueError") and \
                        "invalid allowed spin block" in h and \
                        cls["repeated_on_known"]:
                    results.append(dict(
                        base, status="violation",
                        outcome=f"{mname}:ValueError-repeated-index",
                        finding="integrate_spin:repeated-index-on-known-object",
                        detail=info + "a tensor with known spin blocks carries "
                        "an index twice; the blocks that give this index two "
                        "spins have to be skipped, instead:\n" + err))
                else:
                    results.append(dict(base, status="violation",
                                        outcome=f"{mname}:exception",
                                        finding=f"{mname}:exception",
                                        detail=info + err))
                continue
            osym = S(out.sympy)
            info += f"result: {osym}\n"
            try:
                bad, weak = _compare(oracle, osym, names, spins, restricted,
                                     eri, sizes, cls["unknown_nn"])
            except (Unsupported, NotImplementedError, KeyError) as e:
                results.append(dict(base, status="violation",
                                    outcome=f"{mname}:unsupported",
                                    finding="oracle-unsupported",
                                    detail=info + repr(e)))
                continue
            nt = 0 if osym is S.Zero else len(Add.make_args(osym))
            outcome = f"{mname}:{nt}terms" if nt < 12 else f"{mname}:>=12terms"
            if bad:
                finding = f"value:{mname}"
                why = ""
                expl = _explain(sym, target, osym, names, spins, restricted,
                                eri, sizes, cls["unknown_nn"])
                if expl:
                    finding = "defect:" + "+".join(expl)
                    why = ("the result has exactly the value predicted by "
                           "the defect(s): "
                           + "; ".join(DEFECTS[d] for d in expl) + "\n")
                    outcome += ":" + finding
                results.append(dict(base, status="violation",
                                    outcome=outcome + ":value",
                                    finding=finding,
                                    detail=info + why + "value differs from "
                                    "the input on the requested spin block; "
                                    + bad))
                continue
            # target bookkeeping of the returned expression
            out_spins = "a" * len(spins) if restricted else spins
            want = {f"{n}_{s}" for n, s in zip(names, out_spins)}
            prov = out.provided_target_idx
            if prov is not None:
                have = {f"{s.name}_{s.spin}" if s.spin else s.name
                        for s in prov}
                if have != want:
                    results.append(dict(
                        base, status="violation", outcome=outcome + ":targets",
                        finding=f"targets:{mname}",
                        detail=info + f"target indices of the result {prov}, "
                        f"expected {sorted(want)}"))
                    continue
            else:
                # the result declares no targets: it is read with the
                # Einstein convention, which has to give the requested ones
                badt = None
                for t in Add.make_args(osym):
                    if t.is_number:
                        continue
                    e = {_spin_name(s) for s, c in
                         gen.sympy_index_counts(t).items() if c == 1}
                    if e != want:
                        badt = (f"the result declares no target indices and "
                                f"its term {t} has the Einstein targets "
                                f"{sorted(e)}, expected {sorted(want)}")
                if badt and osym is not S.Zero:
                    results.append(dict(
                        base, status="violation", outcome=outcome + ":targets",
                        finding=f"targets:{mname}", detail=info + badt))
                    continue
            if weak:
                outcome += ":ok-spin-conserving-unknown"
            results.append(dict(base, status="ok", outcome=outcome))
    results.append(_check_asb(expr0, sym, names, tstr, oracle, sizes, cls,
                              key0, nontrivial, info0))
    return results


def _spin_name(s):
    return f"{s.name}_{s.spin}" if s.spin else s.name


def _check_asb(expr0, sym, names, tstr, oracle, sizes, cls, key0, nontrivial,
               info0):
    key = repr((key0, "allowed_spin_blocks"))
    base = {"key": key, "transitions": 1, "nontrivial": nontrivial}
    rep, err = safe_call(allowed_spin_blocks, expr0.copy(), tstr)
    info = info0 + "allowed_spin_blocks(expr, target)\n"
    if err:
        h = _head(err)
        if cls["has_unknown"] and (cls["open"] or not cls["has_known"]) and \
                h.startswith(("RuntimeError", "IndexError")):
            # documented: only closed expressions (all tensors known)
            return dict(base, status="ok", nontrivial=False,
                        outcome="asb:refused-open-expression:"
                        + h.split(":")[0])
        if h.startswith("ValueError") and "invalid allowed spin block" in h \
                and cls["repeated_on_known"]:
            return dict(base, status="violation",
                        outcome="asb:ValueError-repeated-index",
                        finding="allowed_spin_blocks:repeated-index-on-known-"
                        "object", detail=info + err)
        return dict(base, status="violation", outcome="asb:exception",
                    finding="allowed_spin_blocks:exception",
                    detail=info + err)
    info += f"reported: {rep}\n"
    rep = set(rep)
    n = len(names)
    if any(len(b) != n or set(b) - set("ab") for b in rep):
        return dict(base, status="violation", outcome="asb:malformed",
                    finding="allowed_spin_blocks:malformed", detail=info)
    weak = False
    nonzero = set()
    for size in sizes:
        tab, m = oracle.table(size, False, False)
        spin = m.space.orb_spin
        blocks = _nonzero_blocks(tab, spin, rep)
        nonzero |= set(blocks)
        missing = sorted(set(blocks) - rep)
        if missing and cls["unknown_nn"]:
            tab2, m2 = oracle.table(size, False, False, True)
            if not (set(_nonzero_blocks(tab2, spin, rep)) - rep):
                weak = True
                missing = []
        if missing:
            b = missing[0]
            lab = tuple(m.space.label[o] for o in blocks[b])
            return dict(base, status="violation",
                        outcome="asb:missing-block",
                        finding="allowed_spin_blocks:missing-block",
                        detail=info + f"block '{b}' is not reported but the "
                        f"expression does not vanish there, e.g. at {lab}: "
                        f"{tab.data[blocks[b]]!r}")
    outcome = f"asb:{len(rep)}of{2 ** n}" + \
        (":exact" if rep == nonzero else ":superset")
    if weak:
        outcome += ":ok-spin-conserving-unknown"
    return dict(base, status="ok", outcome=outcome,
                nontrivial=nontrivial and len(rep) < 2 ** n)


def _nonzero_blocks(tab, spin, reported):
    """spin block -> one orbital tuple with a non-vanishing entry.  Entries
    are polynomials with inverse-bracket atoms; a non-empty representation is
    taken as non-zero for reported blocks, for blocks that are not reported it
    is confirmed as a rational function (expensive, hence lazy)."""
    blocks = {}
    for k, v in tab.data.items():
        b = "".join(spin[o] for o in k)
        if b in blocks or not v.t:
            continue
        if b in reported or ring.clear(v).t:
            blocks[b] = k
    return blocks


def _term_case(case):
    _, desc, mode, names = case
    term = build_term(desc)
    shapes = [o[0] for o in desc[1]]
    real = not any(s in ("Vc_oovv", "t1cc_2") for s in shapes)
    cnt = gen.sympy_index_counts(term)
    contracted = [s for s in cnt if str(s) not in names]
    shared = any(c > 1 for c in cnt.values())
    nontrivial = bool(contracted) or (shared and len(desc[1]) > 1)
    return _check_expr(term, names, mode == "X", (desc, mode, names),
                       nontrivial, real)


def _chain_case(case):
    _, desc, names = case
    term = build_term(desc)
    return _check_expr(term, names, True, ("chain", desc, names), True, True,
                       modes=MODES[:1])


def _sum_case(case):
    sym, names = _sum_inputs(case[2])[case[1]]
    res = []
    for explicit in (False, True):
        if not explicit and any(
                _einstein_names(t) != set(names) for t in Add.make_args(sym)
                if not t.is_number):
            continue
        res.extend(_check_expr(sym, names, explicit,
                               ("sum", case[1], explicit), True, True))
    return res


def _obj_case(case):
    """Obj.allowed_spin_blocks for every index pattern of one shape"""
    shape = case[1]
    results = []
    for d in _terms((shape,)):
        obj = build_term(d)
        if obj is S.Zero or obj.is_number:
            continue
        key = repr(("obj", d[1][0]))
        base = {"key": key, "transitions": 1}
        idx = tuple(sorted(obj.atoms(Index), key=lambda s: gen.name_key(str(s))))
        e = Expr(obj, target_idx=list(idx))
        o = e.terms[0].objects[0]
        rep, err = safe_call(lambda: o.allowed_spin_blocks)
        info = f"Obj.allowed_spin_blocks of {obj}\n"
        if err:
            results.append(dict(base, status="violation", nontrivial=True,
                                outcome="obj-asb:exception",
                                finding="Obj.allowed_spin_blocks:exception",
                                detail=info + err))
            continue
        know = known_blocks(obj)
        if rep is None:
            # nothing is claimed about the object
            results.append(dict(base, status="ok", nontrivial=False,
                                outcome="obj-asb:None:"
                                + ("known-shape" if know else "unknown")))
            continue
        info += f"reported: {rep} for the index tuple {o.idx}\n"
        oidx = tuple(o.idx)
        if any(len(b) != len(oidx) for b in rep):
            results.append(dict(base, status="violation", nontrivial=True,
                                outcome="obj-asb:malformed",
                                finding="Obj.allowed_spin_blocks:malformed",
                                detail=info))
            continue
        names = [str(s) for s in idx]
        no, nv = space_sizes([names])
        # two spatial orbitals per space at least: an antisymmetric pair
        # with equal spins needs two orbitals
        m = model(max(no, 2), max(nv, 2))
        tab = evaluate(obj, idx, m)
        spin = m.space.orb_spin
        pos = [idx.index(s) for s in oidx]
        seen = set()
        bad = None
        for k, v in tab.data.items():
            b = "".join(spin[k[p]] for p in pos)
            seen.add(b)
            if b not in rep and bad is None:
                bad = (b, k)
        if bad:
            lab = tuple(m.space.label[x] for x in bad[1])
            results.append(dict(
                base, status="violation", nontrivial=True,
                outcome="obj-asb:missing-block",
                finding=f"Obj.allowed_spin_blocks:missing-block:{SHAPES[shape][1] or 'delta'}",
                detail=info + f"block '{bad[0]}' is not reported, but the "
                f"object does not vanish at {lab} (indices {idx})"))
            continue
        results.append(dict(base, status="ok",
                            nontrivial=len(rep) < 2 ** len(oidx),
                            outcome=f"obj-asb:{len(rep)}of{2 ** len(oidx)}:"
                            f"{len(seen)}nonzero"))
    return results


def _itmd_case(case, tier):
    it = case[1]
    key = repr(("itmd", it))
    base = {"key": key, "transitions": 1, "nontrivial": True}
    itmd = Intermediates().available[it]
    info = f"Intermediates().available['{it}'].allowed_spin_blocks\n"
    rep, err = safe_call(lambda: itmd.allowed_spin_blocks)
    if err:
        h = _head(err)
        d = itmd.expand_itmd(fully_expand=False)
        cls = _classify_all(S(d.sympy).expand())
        if cls["has_unknown"] and cls["open"] and \
                h.startswith(("RuntimeError", "IndexError")):
            return dict(base, status="ok", nontrivial=False,
                        outcome="itmd-asb:refused-open-definition")
        return dict(base, status="violation", outcome="itmd-asb:exception",
                    finding="itmd.allowed_spin_blocks:exception",
                    detail=info + err)
    sup = itmd_support(it, tier)
    info += f"reported {rep}\nnon-vanishing blocks of the definition: " \
            f"{sorted(sup)}\n"
    missing = sorted(set(sup) - set(rep))
    if missing:
        return dict(base, status="violation", outcome="itmd-asb:missing-block",
                    finding="itmd.allowed_spin_blocks:missing-block",
                    detail=info + f"blocks {missing} are not reported but the "
                    "definition does not vanish there")
    n = len(itmd.default_idx)
    return dict(base, status="ok",
                outcome=f"itmd-asb:{len(rep)}of{2 ** n}:"
                + ("exact" if set(rep) == set(sup) else "superset"))


def _aggregate(case, results):
    out = [r for r in results if r["status"] != "ok"]
    oks = [r for r in results if r["status"] == "ok"]
    outcomes = {}
    for r in oks:
        outcomes[r["outcome"]] = outcomes.get(r["outcome"], 0) + 1
    out.append({"status": "ok", "key": "agg:" + repr(case), "nontrivial": True,
                "outcome": "aggregate", "transitions": 0,
                "agg": {"states": len(oks),
                        "nontrivial": sum(1 for r in oks if r["nontrivial"]),
                        "transitions": sum(r["transitions"] for r in oks),
                        "outcomes": outcomes}})
    return out


CASE_TIMEOUT = 3000
CHUNK = 8


def _drop_caches():
    """the evaluator caches tables on the models; they are only useful
    within one case"""
    for m in _MODELS.values():
        m.__dict__.pop("_termcache", None)
        if len(m.__dict__.get("_tabcache", ())) > 200:
            m.__dict__.pop("_tabcache", None)
        if len(m._cache) > 200000:
            m._cache.clear()


def run_case(case):
    try:
        return _run_case(case)
    finally:
        _drop_caches()


def _run_case(case):
    part = case[0]
    if part == "term":
        return _aggregate(case, _term_case(case))
    if part == "sum":
        return _aggregate(case, _sum_case(case))
    if part == "chain":
        return _aggregate(case, _chain_case(case))
    if part == "obj":
        return _aggregate(case, _obj_case(case))
    return [_itmd_case(case, case[2])]
