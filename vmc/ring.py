"""Exact value domain of the reference semantics.

A `Poly` is a sparse multivariate polynomial with rational coefficients over
a growing set of *atoms*:

* plain indeterminates (formal tensor entries, orbital energies, symbols),
* inverse *brackets* 1/(sum_k c_k e_k)  (orbital-energy denominators), kept as
  atoms and cleared by `clear()` before a comparison,
* square roots of square-free positive integers (reduced by `clear()`).

Equality of two values is decided with `equal(a, b)`, i.e. as equality of
rational functions: `clear(a - b)` multiplies by every bracket often enough to
remove all inverse atoms and reduces sqrt atoms, the result is the zero
polynomial iff a == b for every numerical choice of the indeterminates for
which the denominators do not vanish.

Monomials are sorted tuples of atom ids (with repetition); coefficients are
python ints or `fractions.Fraction`.
"""
from fractions import Fraction

_names = []          # atom id -> printable name
_ids = {}            # name -> atom id
_brackets = {}       # atom id -> tuple((evar_id, coeff), ...)  (inverse bracket)
_sqrts = {}          # atom id -> radicand (int)


def _atom(name):
    i = _ids.get(name)
    if i is None:
        i = len(_names)
        _names.append(name)
        _ids[name] = i
    return i


class Poly:
    __slots__ = ("t",)

    def __init__(self, t=None):
        self.t = t if t is not None else {}

    # ---------------------------------------------------------- construction
    @staticmethod
    def const(c):
        if c == 0:
            return Poly()
        return Poly({(): c})

    @staticmethod
    def var(name):
        return Poly({(_atom(name),): 1})

    # ------------------------------------------------------------- predicates
    def __bool__(self):
        return bool(self.t)

    def is_zero(self):
        return not self.t

    def copy(self):
        return Poly(dict(self.t))

    # -------------------------------------------------------------- arithmetic
    def __add__(self, other):
        if not isinstance(other, Poly):
            other = Poly.const(_num(other))
        if len(self.t) < len(other.t):
            self, other = other, self
        t = dict(self.t)
        for m, c in other.t.items():
            v = t.get(m)
            if v is None:
                t[m] = c
            else:
                v = v + c
                if v == 0:
                    del t[m]
                else:
                    t[m] = v
        return Poly(t)

    __radd__ = __add__

    def iadd(self, other, fac=1):
        """in place self += fac*other"""
        t = self.t
        for m, c in other.t.items():
            c = c * fac
            v = t.get(m)
            if v is None:
                t[m] = c
            else:
                v = v + c
                if v == 0:
                    del t[m]
                else:
                    t[m] = v
        return self

    def __neg__(self):
        return Poly({m: -c for m, c in self.t.items()})

    def __sub__(self, other):
        if not isinstance(other, Poly):
            other = Poly.const(_num(other))
        return self + (-other)

    def __rsub__(self, other):
        return (-self) + other

    def __mul__(self, other):
        if not isinstance(other, Poly):
            c = _num(other)
            if c == 0:
                return Poly()
            return Poly({m: v * c for m, v in self.t.items()})
        a, b = self.t, other.t
        if not a or not b:
            return Poly()
        if len(a) == 1 and len(b) == 1:
            (m1, c1), = a.items()
            (m2, c2), = b.items()
            return Poly({_mmul(m1, m2): c1 * c2})
        if len(a) == 1:
            (m1, c1), = a.items()
            if not m1:
                return Poly({m: v * c1 for m, v in b.items()})
            return Poly({_mmul(m1, m2): c1 * c2 for m2, c2 in b.items()})
        if len(b) == 1:
            (m2, c2), = b.items()
            if not m2:
                return Poly({m: v * c2 for m, v in a.items()})
            return Poly({_mmul(m1, m2): c1 * c2 for m1, c1 in a.items()})
        t = {}
        for m1, c1 in a.items():
            for m2, c2 in b.items():
                m = _mmul(m1, m2)
                c = c1 * c2
                v = t.get(m)
                if v is None:
                    t[m] = c
                else:
                    v = v + c
                    if v == 0:
                        del t[m]
                    else:
                        t[m] = v
        return Poly(t)

    __rmul__ = __mul__

    def __pow__(self, n):
        n = int(n)
        assert n >= 0
        res = ONE
        base = self
        while n:
            if n & 1:
                res = res * base
            n >>= 1
            if n:
                base = base * base
        return res

    def __eq__(self, other):
        if not isinstance(other, Poly):
            other = Poly.const(_num(other))
        return equal(self, other)

    def __ne__(self, other):
        return not self.__eq__(other)

    def __hash__(self):
        raise TypeError("Poly is not hashable; use key()")

    def key(self):
        """canonical hashable form (after clear)"""
        c = clear(self)
        return tuple(sorted((tuple(_names[i] for i in m), str(v))
                            for m, v in c.t.items()))

    def atoms(self):
        s = set()
        for m in self.t:
            s.update(m)
        return s

    def degree(self):
        return max((len(m) for m in self.t), default=0)

    def __repr__(self):
        if not self.t:
            return "0"
        out = []
        for m, c in sorted(self.t.items(),
                           key=lambda x: tuple(_names[i] for i in x[0])):
            mono = "*".join(_names[i] for i in m)
            if not mono:
                out.append(str(c))
            elif c == 1:
                out.append(mono)
            else:
                out.append(f"{c}*{mono}")
        s = " + ".join(out)
        return s if len(s) < 400 else s[:400] + " ..."


def _num(c):
    if isinstance(c, int):
        return c
    if isinstance(c, Fraction):
        return c.numerator if c.denominator == 1 else c
    # sympy numbers
    p = getattr(c, "p", None)
    q = getattr(c, "q", None)
    if p is not None and q is not None:
        p, q = int(p), int(q)
        return p if q == 1 else Fraction(p, q)
    raise TypeError(f"not an exact number: {c!r}")


def _mmul(m1, m2):
    if not m1:
        return m2
    if not m2:
        return m1
    if m1[-1] <= m2[0]:
        return m1 + m2
    if m2[-1] <= m1[0]:
        return m2 + m1
    return tuple(sorted(m1 + m2))


ZERO = Poly()
ONE = Poly({(): 1})


def const(c):
    return Poly.const(_num(c))


def var(name):
    return Poly.var(name)


def sqrt_atom(m):
    """sqrt of a positive integer as ring element (square part extracted)."""
    m = int(m)
    assert m > 0
    sq, rest = 1, m
    d = 2
    while d * d <= rest:
        while rest % (d * d) == 0:
            rest //= d * d
            sq *= d
        d += 1
    if rest == 1:
        return Poly.const(sq)
    i = _atom(f"sqrt({rest})")
    _sqrts[i] = rest
    return Poly({(i,): sq})


def linear_form(p):
    """If p is a non-zero homogeneous linear polynomial, return
    tuple((atom, coeff), ...) sorted by atom, else None."""
    if not p.t:
        return None
    out = []
    for m, c in p.t.items():
        if len(m) != 1:
            return None
        out.append((m[0], c))
    out.sort()
    return tuple(out)


def inverse(p):
    """1/p for p a rational constant or any non-constant polynomial without
    inverse atoms (kept as an atom; cleared by `clear`)."""
    if len(p.t) == 1 and () in p.t:
        return Poly.const(_num(1 / Fraction(p.t[()])))
    if not p.t:
        raise ZeroDivisionError("inverse of the zero polynomial")
    if any(a in _brackets for a in p.atoms()):
        raise NotImplementedError(f"inverse of a value with denominators: {p!r}")
    # normalise: leading coefficient (smallest monomial) +1
    items = sorted(p.t.items())
    lead = Fraction(items[0][1])
    norm = tuple((m, _num(Fraction(c) / lead)) for m, c in items)
    name = "1/(" + "+".join(
        f"{c}*{'*'.join(_names[a] for a in m) or '1'}" for m, c in norm) + ")"
    i = _atom(name)
    _brackets[i] = norm
    return Poly({(i,): _num(1 / lead)})


def _bracket_poly(norm):
    return Poly(dict(norm))


def clear(p):
    """Reduce sqrt atoms and multiply by brackets until no inverse atom is
    left.  The result is zero iff p is zero as a rational function."""
    if not p.t:
        return p
    atoms = p.atoms()
    # --- sqrt reduction
    sq = [a for a in atoms if a in _sqrts]
    if sq:
        t = {}
        for m, c in p.t.items():
            for a in sq:
                k = m.count(a)
                if k >= 2:
                    c = c * _sqrts[a] ** (k // 2)
                    lst = [x for x in m if x != a]
                    if k % 2:
                        lst.append(a)
                        lst.sort()
                    m = tuple(lst)
            v = t.get(m)
            if v is None:
                t[m] = c
            else:
                v = v + c
                if v == 0:
                    del t[m]
                else:
                    t[m] = v
        p = Poly(t)
    # --- clear inverse brackets, one atom at a time
    inv = sorted(a for a in atoms if a in _brackets)
    for a in inv:
        kmax = max((m.count(a) for m in p.t), default=0)
        if kmax == 0:
            continue
        B = _bracket_poly(_brackets[a])
        pows = [ONE]
        for _ in range(kmax):
            pows.append(pows[-1] * B)
        groups = {}
        for m, c in p.t.items():
            k = m.count(a)
            rest = tuple(x for x in m if x != a) if k else m
            groups.setdefault(kmax - k, {})[rest] = c
        acc = Poly()
        for k, t in groups.items():
            acc.iadd(Poly(t) * pows[k])
        p = acc
        if not p.t:
            break
    return p


def equal(a, b):
    if a.t == b.t:
        return True
    d = a - b
    if not d.t:
        return True
    at = d.atoms()
    if not any((x in _brackets or x in _sqrts) for x in at):
        return False
    return not clear(d).t


def atom_name(i):
    return _names[i]


def substitute(p, values):
    """replace plain atoms by exact numbers: values maps atom NAME -> int /
    Fraction.  Inverse brackets whose variables are all substituted become
    numbers too (ZeroDivisionError if a bracket vanishes)."""
    if not p.t:
        return p
    cache = {}

    def val(a):
        v = cache.get(a, None)
        if v is not None:
            return v
        v = False
        name = _names[a]
        if name in values:
            v = Fraction(values[name])
        elif a in _brackets:
            acc = Fraction(0)
            ok = True
            for m, c in _brackets[a]:
                term = Fraction(c)
                for x in m:
                    xv = val(x)
                    if xv is False:
                        ok = False
                        break
                    term *= xv
                if not ok:
                    break
                acc += term
            if ok:
                if acc == 0:
                    raise ZeroDivisionError("vanishing bracket")
                v = 1 / acc
        cache[a] = v
        return v
    out = {}
    for m, c in p.t.items():
        rest = []
        cc = Fraction(c)
        for a in m:
            v = val(a)
            if v is False:
                rest.append(a)
            else:
                cc *= v
        if cc == 0:
            continue
        key = tuple(rest)
        nv = out.get(key, 0) + cc
        if nv == 0:
            out.pop(key, None)
        else:
            out[key] = nv
    return Poly({m: _num(c) for m, c in out.items()})
