"""Independent tokenizer / parser / interpreter for the programs emitted by
adcgen.generate_code (backends 'einsum' and 'libtensor').

Nothing here is shared with adcgen: the tensor-name translation tables
(hf.oovv, hf.foo, i_oovv, pi1, t2_1, ur1, ul2, d_oo, <name>_<space>) are
re-typed from the adcc / libadc conventions, the axis conventions are:
  AntiSymmetric / Symmetric tensor : axes = upper indices, then lower indices
  Amplitude                        : axes = lower (occupied) then upper
  NonSymmetricTensor / delta       : axes as written

A value is either a scalar (ring.Poly) or a *labelled tensor*
LT(letters, data) with one axis per distinct letter.
"""
import itertools
import re
from fractions import Fraction

from . import ring
from .ring import Poly, ONE, ZERO


class CodeError(Exception):
    pass


class LT:
    __slots__ = ("letters", "data")

    def __init__(self, letters, data):
        self.letters = tuple(letters)
        self.data = data


def letter_space(c):
    if c[0] in "ijklmno":
        return "occ"
    if c[0] in "abcdefgh":
        return "virt"
    if c[0] in "pqrstuvw":
        return "general"
    raise CodeError(f"unknown index letter {c!r}")


# ------------------------------------------------------------------ tokens
TOKEN = re.compile(r"""
    (?P<str>"[^"]*")
  | (?P<num>\d+\.\d+|\d+)
  | (?P<name>[A-Za-z_][A-Za-z0-9_.:]*)
  | (?P<op>[()*/,|])
  | (?P<ws>\s+)
""", re.X)


def tokenize(s):
    out = []
    pos = 0
    while pos < len(s):
        m = TOKEN.match(s, pos)
        if not m:
            raise CodeError(f"cannot tokenize {s[pos:pos+20]!r} in {s!r}")
        pos = m.end()
        if m.lastgroup == "ws":
            continue
        out.append((m.lastgroup, m.group()))
    return out


class Parser:
    def __init__(self, toks, env):
        self.t = toks
        self.i = 0
        self.env = env

    def peek(self):
        return self.t[self.i] if self.i < len(self.t) else (None, None)

    def eat(self, kind=None, val=None):
        k, v = self.peek()
        if k is None or (kind and k != kind) or (val and v != val):
            raise CodeError(f"expected {kind or ''} {val or ''} at token "
                            f"{self.i}: got {k} {v}")
        self.i += 1
        return v

    # expr := factor (('*' | '/') factor)*
    def expr(self):
        val = self.factor()
        while self.peek() in (("op", "*"), ("op", "/")):
            op = self.eat("op")
            rhs = self.factor()
            if op == "*":
                val = mul(val, rhs, self.env)
            else:
                if not isinstance(rhs, Poly) or not isinstance(val, Poly):
                    raise CodeError("division of tensors")
                val = val * ring.inverse(rhs)
        return val

    def factor(self):
        k, v = self.peek()
        if k == "num":
            self.eat()
            return ring.const(Fraction(v))
        if k == "op" and v == "(":
            self.eat()
            val = self.expr()
            self.eat("op", ")")
            return val
        if k != "name":
            raise CodeError(f"unexpected token {v!r}")
        self.eat()
        if v == "sqrt":
            self.eat("op", "(")
            n = self.eat("num")
            self.eat("op", ")")
            return ring.sqrt_atom(int(n))
        if v.startswith("constants::sq"):
            return ring.sqrt_atom(int(v[len("constants::sq"):]))
        if v == "einsum":
            self.eat("op", "(")
            spec = self.eat("str").strip('"')
            ops = []
            while self.peek() == ("op", ","):
                self.eat()
                ops.append(self.operand_or_expr())
            self.eat("op", ")")
            return self.env.einsum(spec, ops)
        if v in ("contract", "dot_product"):
            self.eat("op", "(")
            contracted = None
            if v == "contract":
                contracted = [self.eat("name")]
                while self.peek() == ("op", "|"):
                    self.eat()
                    contracted.append(self.eat("name"))
                self.eat("op", ",")
            ops = [self.expr()]
            while self.peek() == ("op", ","):
                self.eat()
                ops.append(self.expr())
            self.eat("op", ")")
            return self.env.contract(contracted, ops, dot=(v == "dot_product"))
        # labelled tensor  NAME(i|j|a)   or bare name
        if self.peek() == ("op", "("):
            self.eat()
            letters = []
            if self.peek()[0] == "name":
                letters.append(self.eat("name"))
                while self.peek() == ("op", "|"):
                    self.eat()
                    letters.append(self.eat("name"))
            self.eat("op", ")")
            return self.env.tensor(v, letters)
        return self.env.bare(v)

    def operand_or_expr(self):
        """an einsum operand: a bare tensor name stays a name (its letters
        come from the spec), anything else is an expression value"""
        k, v = self.peek()
        if k == "name" and v not in ("einsum", "sqrt") and \
                not v.startswith("constants::") and \
                self.t[self.i + 1:self.i + 2] in ([("op", ",")],
                                                   [("op", ")")]):
            self.eat()
            return ("name", v)
        return self.expr()


class Deferred:
    """a bare tensor name (times a scalar) whose index letters are fixed by
    the context: the enclosing einsum spec or the result of the line"""
    __slots__ = ("name", "scalar")

    def __init__(self, name, scalar):
        self.name = name
        self.scalar = scalar

    def resolve(self, env, letters):
        t = env.tensor(self.name, list(letters))
        if self.scalar.t != ONE.t:
            t = LT(t.letters, {k: v * self.scalar for k, v in t.data.items()})
        return t


def mul(a, b, env):
    if isinstance(a, Poly) and isinstance(b, Poly):
        return a * b
    if isinstance(a, Deferred) or isinstance(b, Deferred):
        if isinstance(b, Deferred):
            a, b = b, a
        if not isinstance(b, Poly):
            raise CodeError("product of a bare tensor name with a tensor")
        return Deferred(a.name, a.scalar * b)
    if isinstance(a, Poly):
        a, b = b, a
    if isinstance(b, Poly):
        return LT(a.letters, {k: v * b for k, v in a.data.items()})
    # outer / elementwise product of labelled tensors (libtensor: shared
    # letters are multiplied elementwise, no summation)
    return env.product([a, b], keep=None)


class Env:
    """name -> values via `lookup(name, orbitals)`; ranges per letter"""

    def __init__(self, model, name_table, symbols=()):
        self.model = model
        self.names = name_table      # emitted name -> spec dict
        self.symbols = set(symbols)
        self.top_target = None       # letters of the requested result

    def rng(self, letter):
        return self.model.space.range(letter_space(letter), "")

    def tensor(self, name, letters):
        spec = self.names.get(name)
        if spec is None:
            raise CodeError(f"unknown tensor name {name!r}")
        if len(letters) != spec["rank"]:
            raise CodeError(f"{name} has rank {spec['rank']}, got {letters}")
        want = spec.get("space")
        if want is not None:
            got = "".join(letter_space(c)[0] for c in letters)
            if got != want:
                raise CodeError(f"{name} is used with indices {letters} "
                                f"({got}) but names the block {want}")
        distinct = []
        for c in letters:
            if c not in distinct:
                distinct.append(c)
        data = {}
        for vals in itertools.product(*[self.rng(c) for c in distinct]):
            asg = dict(zip(distinct, vals))
            orbs = tuple(asg[c] for c in letters)
            v = spec["value"](self.model, orbs)
            if v.t:
                data[vals] = v
        return LT(distinct, data)

    def bare(self, name):
        if name in self.symbols:
            return ring.var(f"sym:{name}")
        # bare tensor name: letters come from the context
        if name in self.names:
            return Deferred(name, ONE)
        raise CodeError(f"bare name {name!r} is neither a symbol nor a tensor")

    def product(self, ops, keep):
        """multiply labelled tensors / scalars; keep: letters to keep (others
        summed); None = keep all"""
        scal = ONE
        tabs = []
        for o in ops:
            if isinstance(o, Poly):
                scal = scal * o
            else:
                tabs.append(o)
        if not tabs:
            return scal
        cur = tabs[0]
        for nxt in tabs[1:]:
            shared = [c for c in cur.letters if c in nxt.letters]
            pa = [cur.letters.index(c) for c in shared]
            pb = [nxt.letters.index(c) for c in shared]
            rest = [i for i, c in enumerate(nxt.letters) if c not in shared]
            idx = {}
            for k, v in nxt.data.items():
                idx.setdefault(tuple(k[i] for i in pb), []).append(
                    (tuple(k[i] for i in rest), v))
            out = {}
            for k, v in cur.data.items():
                for r, w in idx.get(tuple(k[i] for i in pa), ()):
                    out[k + r] = v * w
            cur = LT(cur.letters + tuple(nxt.letters[i] for i in rest), out)
        if keep is not None:
            kp = [i for i, c in enumerate(cur.letters) if c in keep]
            out = {}
            for k, v in cur.data.items():
                kk = tuple(k[i] for i in kp)
                acc = out.get(kk)
                if acc is None:
                    out[kk] = v.copy()
                else:
                    acc.iadd(v)
            cur = LT(tuple(cur.letters[i] for i in kp),
                     {k: v for k, v in out.items() if v.t})
        if scal.t != ONE.t:
            cur = LT(cur.letters, {k: v * scal for k, v in cur.data.items()})
        if not cur.letters:
            return cur.data.get((), Poly())
        return cur

    def einsum(self, spec, ops):
        if "->" not in spec:
            raise CodeError(f"einsum spec without '->': {spec}")
        lhs, out = spec.split("->")
        parts = lhs.split(",")
        if len(parts) != len(ops):
            raise CodeError(f"einsum {spec}: {len(ops)} operands")
        tabs = []
        for letters, op in zip(parts, ops):
            letters = list(letters)
            if isinstance(op, tuple) and op[0] == "name":
                tabs.append(self.tensor(op[1], letters))
            elif isinstance(op, Deferred):
                tabs.append(op.resolve(self, letters))
            elif isinstance(op, Poly):
                if letters:
                    raise CodeError(f"scalar operand with indices {letters}")
                tabs.append(op)
            else:
                # an inner einsum result: ordered letters must agree
                if list(op.letters) != letters:
                    raise CodeError(f"einsum {spec}: operand has axes "
                                    f"{op.letters}, spec says {letters}")
                tabs.append(op)
        for c in out:
            if not any(c in p for p in parts):
                raise CodeError(f"einsum {spec}: output letter {c} not in "
                                "the operands")
        if len(set(out)) != len(out):
            raise CodeError(f"einsum {spec}: repeated output letter")
        res = self.product(tabs, keep=set(out))
        if isinstance(res, Poly):
            return res
        # order the axes as the output spec says
        pos = [res.letters.index(c) for c in out]
        return LT(tuple(out), {tuple(k[i] for i in pos): v
                               for k, v in res.data.items()})

    def contract(self, contracted, ops, dot):
        tabs = [o for o in ops]
        letters = set()
        for o in tabs:
            if isinstance(o, LT):
                letters.update(o.letters)
        if dot:
            keep = set()
        else:
            missing = [c for c in contracted if c not in letters]
            if missing:
                raise CodeError(f"contract over {contracted}: {missing} do "
                                "not occur on the operands")
            # libtensor: a contracted letter has to occur on exactly two
            # operands ... (hyper-contractions are emitted nevertheless; we
            # give them the natural meaning: sum over the letter)
            keep = letters - set(contracted)
        return self.product(tabs, keep=keep)


def run_line(line, env):
    """'+ 0.5 * c * einsum(...)  # comment'  -> value"""
    code = line
    for tok in ("  #", "  //"):
        if tok in code:
            code = code.split(tok)[0]
    code = code.strip()
    if code[0] not in "+-":
        raise CodeError(f"line without sign: {line!r}")
    sign = -1 if code[0] == "-" else 1
    p = Parser(tokenize(code[1:].strip()), env)
    val = p.expr()
    if p.i != len(p.t):
        raise CodeError(f"trailing tokens in {line!r}")
    if isinstance(val, Deferred):
        # single tensor carrying exactly the requested target indices
        val = val.resolve(env, env.top_target)
    if isinstance(val, Poly):
        return val * sign
    return LT(val.letters, {k: v * sign for k, v in val.data.items()})


PERM = re.compile(r"P_([a-z][0-9]*)([a-z][0-9]*)")


def parse_perm_header(header):
    """'Apply (1 - P_ij + P_ijP_ab) to:' -> [(sign, [(p,q), ...]), ...]"""
    m = re.match(r"Apply (.*) to:$", header.strip())
    if not m:
        raise CodeError(f"no 'Apply ... to:' header: {header!r}")
    body = m.group(1).strip()
    if body == "1":
        return []
    if not (body.startswith("(1") and body.endswith(")")):
        raise CodeError(f"unexpected permutation header {body!r}")
    body = body[2:-1].strip()
    out = []
    toks = body.split()
    i = 0
    while i < len(toks):
        sg = toks[i]
        if sg not in "+-" or i + 1 >= len(toks):
            raise CodeError(f"bad permutation list {body!r}")
        perms = PERM.findall(toks[i + 1])
        if not perms or "".join(f"P_{a}{b}" for a, b in perms) != toks[i + 1]:
            raise CodeError(f"bad permutation product {toks[i+1]!r}")
        out.append((1 if sg == "+" else -1, perms))
        i += 2
    return out


def run_program(text, env, target_letters, ordered):
    """evaluate the complete emitted text; returns dict target-tuple -> Poly
    with axes in `target_letters` order.  ordered: the backend fixes the axis
    order of the result (einsum) or matches by label (libtensor)."""
    env.top_target = tuple(target_letters)
    total = {}
    blocks = [b for b in text.split("\n\n") if b.strip()]
    for block in blocks:
        lines = [l for l in block.split("\n") if l.strip()]
        if not lines[0].startswith("The scaling comment"):
            raise CodeError(f"unexpected block start {lines[0]!r}")
        perms = parse_perm_header(lines[1])
        part = {}
        for line in lines[2:]:
            val = run_line(line, env)
            if isinstance(val, Poly):
                if target_letters:
                    # a pure number term contributes to every element
                    rngs = [env.rng(c) for c in target_letters]
                    for k in itertools.product(*rngs):
                        part.setdefault(k, Poly()).iadd(val)
                else:
                    part.setdefault((), Poly()).iadd(val)
                continue
            if ordered:
                if tuple(val.letters) != tuple(target_letters):
                    raise CodeError(f"line result has axes {val.letters}, "
                                    f"requested {tuple(target_letters)}: "
                                    f"{line!r}")
                pos = list(range(len(target_letters)))
            else:
                if sorted(val.letters) != sorted(target_letters):
                    raise CodeError(f"line result has labels {val.letters}, "
                                    f"requested {tuple(target_letters)}")
                pos = [val.letters.index(c) for c in target_letters]
            for k, v in val.data.items():
                part.setdefault(tuple(k[i] for i in pos), Poly()).iadd(v)
        # apply (1 + sum sign * P)
        acc = {k: v.copy() for k, v in part.items()}
        for sign, plist in perms:
            # symbol map of the transpositions applied one after another
            syms = []
            for p, q in plist:
                for s in (p, q):
                    if s not in syms:
                        syms.append(s)
                    if s not in target_letters:
                        raise CodeError(f"permutation of non-target {s}")
            cur = list(syms)
            for p, q in plist:
                cur = [q if s == p else p if s == q else s for s in cur]
            m = dict(zip(syms, cur))
            pos = {c: i for i, c in enumerate(target_letters)}
            for tau, v in part.items():
                sigma = [None] * len(target_letters)
                for c in target_letters:
                    sigma[pos[m.get(c, c)]] = tau[pos[c]]
                acc.setdefault(tuple(sigma), Poly()).iadd(v, sign)
        for k, v in acc.items():
            total.setdefault(k, Poly()).iadd(v)
    return {k: v for k, v in total.items() if v.t}
