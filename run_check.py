#!/venv/bin/python
"""CLI of the verification machinery.

    run_check.py C07 [--tier quick|thorough] [--replay FILE] [--nproc N]

Exit 0: the property held on everything explored (KNOWN-FINDING lines are
informational); exit 1 + 'VIOLATION property=<id> replay=<path>': a violation
that is not a listed known finding; exit 2: harness problem.

The interpreter's hash seed is owned: the script re-executes itself with
PYTHONHASHSEED = VERIF_SEED mod 16 before sympy / adcgen are imported.
"""
import argparse
import os
import sys

HERE = os.path.dirname(os.path.abspath(__file__))


def main():
    ap = argparse.ArgumentParser()
    ap.add_argument("prop")
    ap.add_argument("--tier", default=os.environ.get("VERIF_TIER", "quick"),
                    choices=["quick", "thorough"])
    ap.add_argument("--replay", default=None)
    ap.add_argument("--nproc", type=int, default=None)
    args = ap.parse_args()
    seed = int(os.environ.get("VERIF_SEED", "0") or 0)
    want = str(seed % 16)
    if os.environ.get("PYTHONHASHSEED") != want or \
            os.environ.get("ADCGEN_LOG_LEVEL") != "ERROR":
        env = dict(os.environ)
        env["PYTHONHASHSEED"] = want
        env["ADCGEN_LOG_LEVEL"] = "ERROR"
        env["PYTHONPATH"] = HERE + os.pathsep + env.get("PYTHONPATH", "")
        env["PYTHONDONTWRITEBYTECODE"] = "1"
        os.execve(sys.executable, [sys.executable] + sys.argv, env)
    sys.path.insert(0, HERE)
    os.chdir(HERE)
    import adcgen  # noqa: F401  (imported in the parent: forked workers share it)
    from vmc import harness
    pid = args.prop.upper()
    modname = f"vmc.checks.{pid.lower()}"
    try:
        rc = harness.run_check(modname, args.tier, seed, replay=args.replay,
                               nproc=args.nproc)
    except SystemExit:
        raise
    except Exception:
        import traceback
        traceback.print_exc()
        print(f"HARNESS-ERROR property={pid}")
        sys.exit(2)
    sys.exit(rc)


if __name__ == "__main__":
    main()
